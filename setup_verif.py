#!/venv/bin/python
# coding: utf-8
"""MANIFEST.setup_cmd: offline, from files on disk only.

* installs hypothesis into /venv from the offline wheelhouse if it is missing;
* installs atheris into /verif/.deps (optional secondary engine; failure to
  install is reported, not fatal -- no property depends on it);
* builds the git-ignored registry archives from the working tree of /repo;
* runs the oracle self-tests.
"""
import os
import subprocess
import sys

HERE = os.path.dirname(os.path.abspath(__file__))
WHEELS = "/opt/veriftools/wheels"
sys.path.insert(0, HERE)


def pip(*args):
    env = dict(os.environ, PIP_NO_INDEX="1")
    return subprocess.call([sys.executable, "-m", "pip", "install", "--no-index",
                            "--find-links", WHEELS, "-q"] + list(args), env=env)


def main():
    try:
        import hypothesis  # noqa
    except ImportError:
        if pip("hypothesis") != 0:
            print("setup: cannot install hypothesis")
            return 1
    deps = os.path.join(HERE, ".deps")
    if not os.path.isdir(os.path.join(deps, "atheris")):
        if pip("--target", deps, "atheris") != 0:
            print("setup: atheris not installed (optional engine unavailable)")
    from vlib import boot, dna
    boot.boot(registries=True)
    dna.self_test()
    import moclo
    print("setup ok: moclo", moclo.__version__, "from", os.path.dirname(moclo.__file__))
    return 0


if __name__ == "__main__":
    sys.exit(main())
