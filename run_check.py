#!/venv/bin/python
# coding: utf-8
"""CLI: run_check.py <ID> [--tier quick|thorough] [--replay FILE]

Exit 0: property held on everything explored (KNOWN-FINDING lines allowed);
exit 1: ``VIOLATION property=<ID> replay=<path>`` printed; exit 2: harness
error (never a VIOLATION line).
"""
import os
import sys

HERE = os.path.dirname(os.path.abspath(__file__))
sys.path.insert(0, HERE)
sys.dont_write_bytecode = True

if __name__ == "__main__":
    from vlib import boot
    boot.pin_hashseed()
    from vlib import runner
    try:
        rc = runner.main(sys.argv[1:])
    except SystemExit:
        raise
    except BaseException:
        import traceback
        traceback.print_exc()
        print("HARNESS-ERROR (driver)")
        rc = 2
    sys.stdout.flush()
    sys.exit(rc)
