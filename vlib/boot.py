# coding: utf-8
"""Import althonos/moclo from the *working tree* of the repository.

Reproduces tests/__init__.py (nothing is installed or copied), makes sure the
git-ignored registry archives exist and are up to date with the working tree's
``registry/**/*.gb`` files, and pins PYTHONHASHSEED.
"""
import fcntl
import glob
import hashlib
import os
import shutil
import subprocess
import sys
import tempfile
import warnings

REPO = os.path.abspath(os.environ.get("MOCLO_REPO", "/repo"))
VERIF = os.path.abspath(os.path.join(os.path.dirname(__file__), ".."))
KITS = ["cidar", "ytk", "ecoflex", "moclo", "plant"]
GUARD = "MOCLO_VERIF"


def pin_hashseed():
    """Re-exec with PYTHONHASHSEED=0 so set/dict order never differs."""
    if os.environ.get("PYTHONHASHSEED") != "0":
        env = dict(os.environ, PYTHONHASHSEED="0")
        os.execve(sys.executable, [sys.executable] + sys.argv, env)


def _registry_digest(kitdir):
    h = hashlib.sha256()
    files = sorted(glob.glob(os.path.join(kitdir, "registry", "*", "*.gb")))
    files.append(os.path.join(kitdir, "setup.py"))
    for f in files:
        h.update(os.path.relpath(f, kitdir).encode())
        with open(f, "rb") as fh:
            h.update(hashlib.sha256(fh.read()).digest())
    return h.hexdigest()


def ensure_registries(verbose=False):
    """(Re)build moclo-*/moclo/registry/*.tar.gz atomically when stale."""
    lockpath = os.path.join(tempfile.gettempdir(), "moclo-verif-registry-%s.lock"
                            % hashlib.md5(REPO.encode()).hexdigest())
    with open(lockpath, "w") as lock:
        fcntl.flock(lock, fcntl.LOCK_EX)
        for kit in KITS:
            kitdir = os.path.join(REPO, "moclo-" + kit)
            regdirs = glob.glob(os.path.join(kitdir, "registry", "*"))
            names = sorted(os.path.basename(d) for d in regdirs if os.path.isdir(d))
            if not names:
                continue
            dstdir = os.path.join(kitdir, "moclo", "registry")
            cache = os.path.join(VERIF, ".cache")
            os.makedirs(cache, exist_ok=True)
            stamp = os.path.join(cache, "registry-%s-%s.stamp" % (
                hashlib.md5(REPO.encode()).hexdigest()[:8], kit))
            digest = _registry_digest(kitdir)
            ok = all(os.path.exists(os.path.join(dstdir, n + ".tar.gz")) for n in names)
            if ok and os.path.exists(stamp) and open(stamp).read() == digest:
                continue
            tmp = tempfile.mkdtemp(prefix="moclo-verif-reg-")
            try:
                env = dict(os.environ)
                env.pop(GUARD, None)
                p = subprocess.run(
                    [sys.executable, "setup.py", "-q", "build_ext", "--force",
                     "--build-lib", os.path.join(tmp, "lib"),
                     "--build-temp", os.path.join(tmp, "tmp")],
                    cwd=kitdir, env=env, stdout=subprocess.PIPE,
                    stderr=subprocess.STDOUT)
                if p.returncode != 0:
                    raise RuntimeError("registry build failed for %s:\n%s"
                                       % (kit, p.stdout.decode(errors="replace")))
                for n in names:
                    src = os.path.join(tmp, "lib", "moclo", "registry", n + ".tar.gz")
                    part = os.path.join(dstdir, ".%s.tar.gz.part" % n)
                    shutil.copyfile(src, part)
                    os.replace(part, os.path.join(dstdir, n + ".tar.gz"))
                with open(stamp + ".part", "w") as fh:
                    fh.write(digest)
                os.replace(stamp + ".part", stamp)
                if verbose:
                    print("built registry archives for", kit)
            finally:
                shutil.rmtree(tmp, ignore_errors=True)


_booted = False


def boot(registries=False):
    """Make ``import moclo`` resolve to the working tree."""
    global _booted
    os.environ.setdefault(GUARD, "1")
    if not _booted:
        warnings.filterwarnings("ignore", message="pkg_resources is deprecated")
        warnings.filterwarnings("ignore", category=DeprecationWarning)
        try:
            from Bio import BiopythonParserWarning
            warnings.filterwarnings("ignore", category=BiopythonParserWarning)
        except ImportError:
            pass
        sys.path.insert(0, os.path.join(REPO, "moclo"))
        import moclo.kits
        import moclo.registry
        for kit in KITS:
            d = os.path.join(REPO, "moclo-" + kit, "moclo")
            moclo.kits.__path__.append(os.path.join(d, "kits"))
            moclo.registry.__path__.append(os.path.join(d, "registry"))
        import moclo
        assert os.path.abspath(moclo.__file__).startswith(REPO + os.sep), moclo.__file__
        _booted = True
    if registries:
        ensure_registries()
