# coding: utf-8
"""Access to the five embedded registries (loaded lazily, once per process)."""
_REG = {}

NAMES = ["ytk", "ptk", "cidar", "ecoflex", "plant"]


def registry_class(name):
    if name == "ytk":
        from moclo.registry.ytk import YTKRegistry as R
    elif name == "ptk":
        from moclo.registry.ytk import PTKRegistry as R
    elif name == "cidar":
        from moclo.registry.cidar import CIDARRegistry as R
    elif name == "ecoflex":
        from moclo.registry.ecoflex import EcoFlexRegistry as R
    elif name == "plant":
        from moclo.registry.plant import PlantRegistry as R
    else:
        raise KeyError(name)
    return R


def registry(name):
    if name not in _REG:
        _REG[name] = registry_class(name)()
    return _REG[name]


def items(name):
    """[(id, entity class, sequence string, record)] sorted by id."""
    reg = registry(name)
    out = []
    for key in sorted(reg):
        item = reg[key]
        out.append((key, type(item.entity), str(item.entity.record.seq), item.entity.record))
    return out


def class_qualname(cls):
    from . import kits
    for name, c in kits.kit_classes().items():
        if c is cls:
            return name
    raise KeyError(cls)
