# coding: utf-8
"""Build Biopython / moclo records from JSON specs and take deep snapshots.

Record spec:
  {"seq": str, "id": str, "name": str, "desc": str, "dbxrefs": [str],
   "feats": [{"type": str, "parts": [[start, end, strand], ...], "id": str,
              "quals": {key: [values]}, "cite": [int, ...]}],
   "refs": [{"title": str, "authors": str, "journal": str, "pubmed": str}],
   "tracks": {name: "index" | "self"},
   "ann": {key: value}}
"""
import copy

from . import dna


def make_location(parts):
    from Bio.SeqFeature import CompoundLocation, FeatureLocation
    locs = [FeatureLocation(int(a), int(b), strand=s) for a, b, s in parts]
    if len(locs) == 1:
        return locs[0]
    return CompoundLocation(locs)


def make_reference(r):
    from Bio.SeqFeature import Reference
    ref = Reference()
    ref.title = r.get("title", "")
    ref.authors = r.get("authors", "")
    ref.journal = r.get("journal", "")
    ref.pubmed_id = r.get("pubmed", "")
    ref.medline_id = r.get("medline", "")
    ref.comment = r.get("comment", "")
    ref.consrtm = r.get("consrtm", "")
    if r.get("loc"):
        from Bio.SeqFeature import FeatureLocation
        ref.location = [FeatureLocation(int(r["loc"][0]), int(r["loc"][1]))]
    return ref


def make_features(fspecs):
    from Bio.SeqFeature import SeqFeature
    feats = []
    for f in fspecs or []:
        quals = {k: list(v) for k, v in (f.get("quals") or {}).items()}
        if f.get("cite"):
            quals["citation"] = ["[%d]" % i for i in f["cite"]]
        feats.append(SeqFeature(make_location(f["parts"]), type=f.get("type", "misc_feature"),
                                id=f.get("id", "<unknown id>"), qualifiers=quals))
    return feats


def build(spec, cls=None):
    """-> CircularRecord (or ``cls``) built from the spec."""
    from Bio.Seq import Seq
    from moclo.record import CircularRecord
    cls = cls or CircularRecord
    seq = spec["seq"]
    n = len(seq)
    ann = copy.deepcopy(spec.get("ann") or {})
    if spec.get("refs") is not None:
        ann["references"] = [make_reference(r) for r in spec["refs"]]
    tracks = {}
    for name, kind in (spec.get("tracks") or {}).items():
        tracks[name] = list(range(n)) if kind == "index" else seq
    kwargs = dict(
        id=spec.get("id", "rec"), name=spec.get("name", spec.get("id", "rec")),
        description=spec.get("desc", "generated record"),
        dbxrefs=list(spec.get("dbxrefs") or []),
        features=make_features(spec.get("feats")),
        annotations=ann,
    )
    if tracks:
        kwargs["letter_annotations"] = tracks
    return cls(Seq(seq), **kwargs)


# --------------------------------------------------------------------------
# snapshots (plain data, comparable with ==)

def ref_fields(r):
    loc = tuple((int(l.start), int(l.end)) for l in (getattr(r, "location", None) or []))
    return ("REF", getattr(r, "title", None), getattr(r, "authors", None),
            getattr(r, "journal", None), getattr(r, "pubmed_id", None),
            getattr(r, "medline_id", None), getattr(r, "comment", None),
            getattr(r, "consrtm", None), loc)


def _plain(x):
    from Bio.SeqFeature import Reference
    if isinstance(x, Reference):
        return ref_fields(x)
    if isinstance(x, dict):
        return tuple(sorted((str(k), _plain(v)) for k, v in x.items()))
    if isinstance(x, (list, tuple)):
        return tuple(_plain(v) for v in x)
    if isinstance(x, (str, int, float, bool)) or x is None:
        return x
    return ("OBJ", type(x).__name__, str(x))


def loc_snapshot(loc):
    if loc is None:
        return None
    return tuple((int(p.start), int(p.end), p.strand, getattr(p, "ref", None),
                  getattr(p, "ref_db", None)) for p in loc.parts) + (
        (getattr(loc, "operator", None),) if len(loc.parts) > 1 else ())


def feature_snapshot(f):
    return (f.type, f.id, loc_snapshot(f.location), _plain(dict(f.qualifiers)))


def snapshot(record):
    """Deep, order-preserving plain snapshot of a record.

    An absent reference list is equivalent to an empty one (C07's statement).
    """
    ann = dict(record.annotations)
    if not ann.get("references"):
        ann.pop("references", None)
    return {
        "type": type(record).__name__,
        "seq": str(record.seq),
        "id": record.id, "name": record.name, "desc": record.description,
        "dbxrefs": tuple(record.dbxrefs),
        "features": tuple(feature_snapshot(f) for f in record.features),
        "ann": _plain(ann),
        "tracks": _plain(dict(record.letter_annotations)),
    }


def snapshot_diff(a, b):
    """First differing key of two snapshots (or None)."""
    for k in a:
        if a[k] != b.get(k):
            if k == "features" and len(a[k]) == len(b[k]):
                for i, (x, y) in enumerate(zip(a[k], b[k])):
                    if x != y:
                        return "features[%d]: %r -> %r" % (i, x, y)
            return "%s: %r -> %r" % (k, a[k], b.get(k))
    return None


# --------------------------------------------------------------------------
# denotations

def denote_feature(feature, seq, stranded=True):
    """Normalised denotation of a feature on the circular word ``seq``.

    Tuple of (forward letters, strand) per part, coordinates read modulo n,
    adjacent parts that continue each other on the same strand merged, a part
    covering the whole circle reduced to its canonical rotation.
    """
    n = len(seq)
    parts = []
    for (a, b, s) in dna.loc_parts(feature.location):
        ln = b - a
        if ln < 0 or ln > n:
            raise ValueError("illegal part (%d,%d) on length %d" % (a, b, n))
        parts.append([a % n if n else 0, ln, s])
    merged = []
    for p in parts:
        if merged and merged[-1][2] == p[2] and merged[-1][1] + p[1] <= n and \
                (merged[-1][0] + merged[-1][1]) % n == p[0] and p[2] != -1:
            merged[-1][1] += p[1]
        elif merged and merged[-1][2] == p[2] == -1 and merged[-1][1] + p[1] <= n and \
                (p[0] + p[1]) % n == merged[-1][0]:
            # minus-strand joins usually list the downstream part first
            merged[-1][0] = p[0]
            merged[-1][1] += p[1]
        elif merged and merged[-1][2] == p[2] == -1 and merged[-1][1] + p[1] <= n and \
                (merged[-1][0] + merged[-1][1]) % n == p[0]:
            # ... but two abutting pieces listed upstream first cover the same stretch
            merged[-1][1] += p[1]
        else:
            merged.append(list(p))
    out = []
    for a, ln, s in merged:
        w = dna.circ_slice(seq, a, ln)
        if ln == n:
            w = dna.least_rotation(w)
        out.append((w, s if stranded else None))
    return tuple(out)


def reading(feature, seq):
    """Per listed part, the letters the part covers in reading order (ascending
    positions for strand +1/None, descending for -1) paired with the strand;
    coordinates modulo n.  -> list of (tuple of (letter, strand), covers whole circle)"""
    n = len(seq)
    out = []
    for (a, b, s) in dna.loc_parts(feature.location):
        ln = b - a
        if ln < 0 or ln > n:
            raise ValueError("illegal part (%d,%d) on length %d" % (a, b, n))
        idx = [(a + i) % n for i in range(ln)]
        if s == -1:
            idx.reverse()
        if ln == 0:
            # a between-bases location: identified by the letter that follows it
            out.append(((("^" + seq[a % n], s),), False))
            continue
        out.append((tuple((seq[i], s) for i in idx), ln == n))
    return out


def closed_loop(before, seq):
    """Is the feature one closed loop: its parts, read in order, walk once
    round the whole circle on one strand (so its start point is arbitrary)?"""
    flat = [x for part, whole in before for x in part]
    n = len(seq)
    if len(flat) != n or n == 0 or any(c.startswith("^") for c, s in flat):
        return False
    if len(set(s for c, s in flat)) != 1:
        return False
    pos = {c: i for i, c in enumerate(seq)}
    if len(pos) != n:
        return False          # letters not distinct: cannot tell
    step = -1 if flat[0][1] == -1 else 1
    idx = [pos.get(c) for c, s in flat]
    if any(i is None for i in idx):
        return False
    return all((idx[(k + 1) % n] - idx[k]) % n == step % n for k in range(n))


def same_reading(before, after_flat, n):
    """Does the flattened reading ``after_flat`` spell the parts of ``before``
    in order?  Splitting a part into consecutive pieces (in reading order) does
    not matter; a part covering the whole circle may start anywhere."""
    if not before:
        return not after_flat
    part, whole = before[0]
    k = len(part)
    head = tuple(after_flat[:k])
    if len(head) < k:
        return False
    if not whole:
        return head == part and same_reading(before[1:], after_flat[k:], n)
    for r in range(k):
        if head == part[r:] + part[:r] and same_reading(before[1:], after_flat[k:], n):
            return True
    return False
