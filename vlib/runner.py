# coding: utf-8
"""Check runner: replay tier, exhaustive tasks, sharded Hypothesis search,
evidence, known findings, VIOLATION reporting.

A check module (``checks/cXX.py``) provides

    ID, RULE, ASSUMPTIONS, LEVEL ("exploration" | "fault_enumeration")
    check(spec, ctx)            property body on one JSON-able spec; raises
                                Violation; calls ctx.note(...) when it completes
    strategies(tier)            {name: (hypothesis strategy of specs, examples per shard)}
    exhaustive_tasks(tier)      optional: list of JSON-able task arguments
    run_exhaustive(arg, ctx)    optional: enumerates specs and calls check()
    EXHAUSTIVE_NOTE             optional text: which sub-domains are complete
"""
import hashlib
import importlib
import json
import multiprocessing
import os
import sys
import time
import traceback
from collections import Counter

VERIF = os.path.abspath(os.path.join(os.path.dirname(__file__), ".."))
# development only: redirect evidence and found-replays (mutation runs must not
# overwrite the evidence of the unchanged tree)
OUT = os.path.abspath(os.environ.get("VERIF_OUT") or VERIF)


# --------------------------------------------------------------------------
# exceptions

class Violation(Exception):
    """The property does not hold on this case."""

    def __init__(self, tag, message, spec=None):
        Exception.__init__(self, "%s: %s" % (tag, message))
        self.tag = tag
        self.message = message
        self.spec = spec


class HarnessError(BaseException):
    """A bug in generator/oracle code; never reported as a violation."""


class StopShard(BaseException):
    """Budget cap reached; ends the shard with what it has."""


class Reject(Exception):
    """The spec is outside the generated domain (e.g. repair did not converge)."""


def innermost_moclo_frame(exc):
    tb = exc.__traceback__
    where = "?"
    while tb is not None:
        fn = tb.tb_frame.f_code.co_filename
        if "/moclo" in fn and "/verif/" not in fn and "site-packages" not in fn:
            where = "%s:%s" % (os.path.basename(fn), tb.tb_frame.f_code.co_name)
        tb = tb.tb_next
    return where


def sut(fn, *args, **kwargs):
    """Call into moclo; exceptions outside ``allowed`` become violations."""
    allowed = kwargs.pop("allowed", ())
    try:
        return fn(*args, **kwargs)
    except (Violation, Reject):
        raise
    except allowed:
        raise
    except Exception as e:  # noqa
        raise Violation(
            "EXC:%s@%s" % (type(e).__name__, innermost_moclo_frame(e)),
            "%s: %s" % (type(e).__name__, str(e)[:300]))


# --------------------------------------------------------------------------
# known findings

def load_known(prop_id):
    known = {}
    path = os.path.join(VERIF, "KNOWN_FINDINGS.txt")
    if os.path.exists(path):
        for line in open(path):
            line = line.strip()
            if not line.startswith("known:"):
                continue
            fields = line[len("known:"):].split(None, 2)
            kv = dict(f.split("=", 1) for f in fields[:2] if "=" in f)
            if kv.get("property") == prop_id and "tag" in kv:
                known[kv["tag"]] = fields[2] if len(fields) > 2 else kv["tag"]
    return known


# --------------------------------------------------------------------------
# context

def spec_hash(spec):
    data = json.dumps(spec, sort_keys=True, separators=(",", ":"), default=str)
    return int.from_bytes(hashlib.blake2b(data.encode(), digest_size=8).digest(), "big")


class Ctx(object):
    def __init__(self, prop_id, tier, seed, known=None, deadline=None):
        self.prop_id = prop_id
        self.tier = tier
        self.seed = seed
        self.known = known or {}
        self.deadline = deadline
        self.evaluations = 0
        self.nontrivial = set()
        self.hist = Counter()
        self.samples = []
        self._seen_samples = 0
        self.rejected = 0
        self.excluded_known = Counter()
        self.violations = []     # [{"tag","spec","message"}] smallest per tag
        self.capped = False
        self.stop_requested = False
        self._lcg = (seed * 2654435761 + 12345) & 0xFFFFFFFF

    # deterministic reservoir sampling (no RNG of the library under test)
    def _rand(self):
        self._lcg = (self._lcg * 1103515245 + 12345) & 0x7FFFFFFF
        return self._lcg

    def event(self, name, n=1):
        self.hist[name] += n

    def note(self, spec, nontrivial, classes=(), sample=True):
        """A property body ran to completion on ``spec``."""
        self.evaluations += 1
        for c in classes:
            self.hist[c] += 1
        if nontrivial:
            self.nontrivial.add(spec_hash(spec))
            if sample:
                self._seen_samples += 1
                if len(self.samples) < 4:
                    self.samples.append(spec)
                else:
                    j = self._rand() % self._seen_samples
                    if j < 4:
                        self.samples[j] = spec

    def reject(self, why="rejected"):
        self.rejected += 1
        self.hist["reject:" + why] += 1

    def record_violation(self, v, spec):
        size = len(json.dumps(spec, default=str))
        for item in self.violations:
            if item["tag"] == v.tag:
                if size < item["_size"]:
                    item.update(spec=spec, message=v.message, _size=size)
                return
        self.violations.append(
            {"tag": v.tag, "spec": spec, "message": v.message, "_size": size})

    def result(self):
        return {
            "evaluations": self.evaluations,
            "nontrivial": self.nontrivial,
            "hist": dict(self.hist),
            "samples": self.samples,
            "rejected": self.rejected,
            "excluded_known": dict(self.excluded_known),
            "violations": [{k: v for k, v in it.items() if k != "_size"}
                           for it in self.violations],
            "capped": self.capped,
        }


def run_body(mod, spec, ctx):
    """Run the property body once; returns None or raises Violation.

    Known findings are counted and swallowed so the search continues behind
    them; harness exceptions are escalated as HarnessError.
    """
    try:
        mod.check(spec, ctx)
    except Violation as v:
        if v.tag in ctx.known:
            ctx.excluded_known[v.tag] += 1
            return
        v.spec = spec
        ctx.record_violation(v, spec)
        raise
    except Reject as r:
        ctx.reject(str(r) or "rejected")
        raise
    except (HarnessError, StopShard):
        raise
    except BaseException as e:
        import hypothesis.errors
        if isinstance(e, (hypothesis.errors.UnsatisfiedAssumption,
                          hypothesis.errors.StopTest,
                          hypothesis.errors.Frozen)):
            raise
        raise HarnessError("harness error on spec %s\n%s" % (
            json.dumps(spec, default=str)[:2000], traceback.format_exc()))


def guarded_step(ctx, spec_fn, fn):
    """Run one step of a state machine under the same rules as run_body."""
    if ctx.deadline is not None and time.time() > ctx.deadline:
        ctx.capped = True
        ctx.stop_requested = True
        raise StopShard()
    if ctx.violations:
        ctx._shrink_calls = getattr(ctx, "_shrink_calls", 0) + 1
        if not hasattr(ctx, "_shrink_t0"):
            ctx._shrink_t0 = time.time()
        if ctx._shrink_calls > 20000 or time.time() - ctx._shrink_t0 > 30:
            ctx.stop_requested = True
            raise StopShard()
    try:
        return fn()
    except Violation as v:
        if v.tag in ctx.known:
            ctx.excluded_known[v.tag] += 1
            return None
        spec = spec_fn()
        v.spec = spec
        ctx.record_violation(v, spec)
        raise
    except (HarnessError, StopShard, Reject):
        raise
    except BaseException as e:
        import hypothesis.errors
        if isinstance(e, (hypothesis.errors.UnsatisfiedAssumption,
                          hypothesis.errors.StopTest,
                          hypothesis.errors.Frozen)):
            raise
        raise HarnessError("harness error in state machine step\n%s" % traceback.format_exc())


def _run_machine(mod, ctx, payload):
    import hypothesis
    from hypothesis import HealthCheck, Phase, settings
    from hypothesis.stateful import run_state_machine_as_test
    name, shard, examples, steps = payload
    machine = mod.make_machine(ctx, name)
    idx = sorted(mod.machines(ctx.tier)).index(name)
    machine = hypothesis.seed(ctx.seed * 100003 + shard * 101 + 50 + idx)(machine)
    st_ = settings(
        max_examples=examples, stateful_step_count=steps, database=None,
        deadline=None, derandomize=False, report_multiple_bugs=False,
        print_blob=False, suppress_health_check=list(HealthCheck),
        phases=[Phase.generate, Phase.shrink],
    )
    try:
        run_state_machine_as_test(machine, settings=st_)
    except Violation:
        pass
    except StopShard:
        pass
    except hypothesis.errors.Flaky:
        # aborting a run with StopShard leaves Hypothesis' data tree with an
        # unfinished test case, which it reports as flaky; tolerated then, and
        # when a violation has already been recorded (a verdict that depends
        # on earlier calls makes the failing case itself flaky)
        if not ctx.stop_requested and not ctx.violations:
            raise
        ctx.hist["shrink-ended:flaky"] += 1
    except Exception as e:  # noqa
        if not ctx.violations:
            raise
        ctx.hist["shrink-ended:%s" % type(e).__name__] += 1


# --------------------------------------------------------------------------
# tasks (run inside pool workers)

_MOD = None


def _load(prop_id):
    global _MOD
    if _MOD is None or _MOD.ID != prop_id:
        _MOD = importlib.import_module("checks." + prop_id.lower())
    return _MOD


def _task(args):
    kind, prop_id, tier, seed, payload, deadline = args
    t0 = time.time()
    try:
        mod = _load(prop_id)
        ctx = Ctx(prop_id, tier, seed, load_known(prop_id), deadline)
        if kind == "exh":
            try:
                mod.run_exhaustive(payload, ctx)
            except Violation:
                pass    # recorded in ctx by run_body
            except StopShard:
                ctx.capped = True
        elif kind == "gen":
            _run_generated(mod, ctx, payload)
        elif kind == "sm":
            _run_machine(mod, ctx, payload)
            kind = "gen"
        res = ctx.result()
        res["kind"] = kind
        res["payload"] = payload if kind == "gen" else None
        res["wall"] = time.time() - t0
        return res
    except HarnessError as e:
        return {"harness_error": str(e)}
    except BaseException:
        return {"harness_error": traceback.format_exc()}


def _run_generated(mod, ctx, payload):
    import hypothesis
    from hypothesis import HealthCheck, Phase, given, settings
    name, shard, examples = payload
    strategy = mod.strategies(ctx.tier)[name][0]
    shrink_started = [None]
    shrink_calls = [0]

    def body(spec):
        if ctx.deadline is not None and time.time() > ctx.deadline:
            ctx.capped = True
            ctx.stop_requested = True
            raise StopShard()
        if ctx.violations:
            # shrinking: cap it (seconds, not Hypothesis' 5 minutes)
            if shrink_started[0] is None:
                shrink_started[0] = time.time()
            shrink_calls[0] += 1
            if shrink_calls[0] > 3000 or time.time() - shrink_started[0] > 45:
                ctx.stop_requested = True
                raise StopShard()
        try:
            run_body(mod, spec, ctx)
        except Reject:
            hypothesis.reject()

    idx = sorted(mod.strategies(ctx.tier)).index(name)
    test = given(strategy)(body)
    test = hypothesis.seed(ctx.seed * 100003 + shard * 101 + idx)(test)
    test = settings(
        max_examples=examples, database=None, deadline=None, derandomize=False,
        report_multiple_bugs=False, print_blob=False,
        suppress_health_check=list(HealthCheck),
        phases=[Phase.generate, Phase.shrink],
    )(test)
    try:
        test()
    except Violation:
        pass
    except StopShard:
        pass
    except hypothesis.errors.Unsatisfiable:
        ctx.hist["unsatisfiable:" + name] += 1
    except hypothesis.errors.Flaky:
        if not ctx.stop_requested and not ctx.violations:
            raise
        ctx.hist["shrink-ended:flaky"] += 1
    except Exception as e:  # noqa -- e.g. an internal error of the shrinker
        if not ctx.violations:
            raise
        ctx.hist["shrink-ended:%s" % type(e).__name__] += 1
    except hypothesis.errors.Unsatisfiable:
        ctx.hist["unsatisfiable:" + name] += 1


# --------------------------------------------------------------------------
# driver

def _evidence(mod, tier, seed, merged, wall, nviol, extra):
    samples = merged["samples"][:8]
    cov = {
        "evaluations": merged["evaluations"],
        "distinct_nontrivial": len(merged["nontrivial"]),
        "rule": mod.RULE,
        "samples": samples,
        "histogram": dict(sorted(merged["hist"].items())),
        "rejected": merged["rejected"],
        "excluded_known": merged["excluded_known"],
        "replayed": merged.get("replayed", 0),
        "shards": merged.get("shards", 0),
        "capped_shards": merged.get("capped", 0),
    }
    if getattr(mod, "EXHAUSTIVE_NOTE", None):
        cov["exhaustive_subdomains"] = mod.EXHAUSTIVE_NOTE
        cov["exhaustive_tasks_completed"] = merged.get("exh_done", 0)
    cov.update(extra or {})
    return {
        "property_id": mod.ID,
        "tier": tier,
        "seed": seed,
        "level": mod.LEVEL,
        "coverage": cov,
        "assumptions": list(mod.ASSUMPTIONS),
        "wall_s": round(wall, 2),
        "violations": nviol,
    }


def write_replay(prop_id, viol, found):
    d = os.path.join(OUT, "replays", prop_id)
    os.makedirs(d, exist_ok=True)
    h = "%016x" % spec_hash([viol["tag"], viol["spec"]])
    path = os.path.join(d, "found-%s.json" % h)
    with open(path, "w") as fh:
        json.dump({"property": prop_id, "tag": viol["tag"], "spec": viol["spec"],
                   "message": viol["message"], "found": found}, fh, indent=1,
                  default=str)
    return path


def replay_file(mod, path, ctx):
    spec = json.load(open(path))["spec"]
    try:
        run_body(mod, spec, ctx)
    except Violation as v:
        return v
    except Reject:
        return None
    return None


def main(argv=None):
    import argparse
    ap = argparse.ArgumentParser()
    ap.add_argument("prop")
    ap.add_argument("--tier", default=os.environ.get("VERIF_TIER") or "quick",
                    choices=["quick", "thorough"])
    ap.add_argument("--replay")
    ap.add_argument("--jobs", type=int,
                    default=int(os.environ.get("VERIF_JOBS") or 16))
    ap.add_argument("--only", help="comma list: replay,exh,gen (development)")
    args = ap.parse_args(argv)
    prop_id = args.prop.upper()
    try:
        seed = int(os.environ.get("VERIF_SEED") or 1)
    except ValueError:
        seed = 1
    t0 = time.time()

    try:
        from vlib import boot
        boot.boot(registries=True)
        from vlib import dna
        dna.self_test()
        mod = _load(prop_id)
    except BaseException:
        traceback.print_exc()
        print("HARNESS-ERROR property=%s (boot)" % prop_id)
        return 2

    known = load_known(prop_id)

    if args.replay:
        ctx = Ctx(prop_id, args.tier, seed, known)
        try:
            v = replay_file(mod, args.replay, ctx)
        except HarnessError as e:
            print(e)
            return 2
        if v is not None:
            print("replay: %s" % v)
            print("VIOLATION property=%s replay=%s" % (prop_id, os.path.abspath(args.replay)))
            return 1
        for tag, n in ctx.excluded_known.items():
            print("KNOWN-FINDING: property=%s %s" % (prop_id, known[tag]))
        print("replay: property held on %s" % args.replay)
        return 0

    only = set((args.only or "replay,exh,gen").split(","))
    caps = getattr(mod, "WALL_CAP", {"quick": 240, "thorough": 3600})
    deadline = t0 + caps[args.tier]

    merged = {"evaluations": 0, "nontrivial": set(), "hist": Counter(),
              "samples": [], "rejected": 0, "excluded_known": Counter(),
              "replayed": 0, "shards": 0, "capped": 0, "exh_done": 0, "_pool": {}}
    violations = []

    def merge(res):
        merged["evaluations"] += res["evaluations"]
        merged["nontrivial"] |= res["nontrivial"]
        merged["hist"].update(res["hist"])
        merged["rejected"] += res["rejected"]
        merged["excluded_known"].update(res["excluded_known"])
        for s in res["samples"][:2 if res.get("kind") == "exh" else 1]:
            merged["_pool"].setdefault(res.get("kind") or "replay", []).append(s)
        if res.get("capped"):
            merged["capped"] += 1
        for v in res["violations"]:
            violations.append(v)

    # 1. replay tier
    rdir = os.path.join(VERIF, "replays", prop_id)
    if "replay" in only and os.path.isdir(rdir):
        ctx = Ctx(prop_id, args.tier, seed, known)
        for fn in sorted(os.listdir(rdir)):
            if not fn.endswith(".json") or fn.startswith("found-"):
                continue
            path = os.path.join(rdir, fn)
            try:
                v = replay_file(mod, path, ctx)
            except HarnessError as e:
                print(e)
                print("HARNESS-ERROR property=%s (replay %s)" % (prop_id, fn))
                return 2
            merged["replayed"] += 1
            if v is not None:
                violations.append({"tag": v.tag, "spec": v.spec,
                                   "message": v.message, "replay_path": path})
        res = ctx.result()
        res["violations"] = []
        merge(res)

    # 2 + 3. exhaustive tasks and generated shards
    tasks = []
    if "exh" in only and hasattr(mod, "exhaustive_tasks"):
        for payload in mod.exhaustive_tasks(args.tier):
            tasks.append(("exh", prop_id, args.tier, seed, payload, deadline))
    if "gen" in only and hasattr(mod, "machines"):
        machines = mod.machines(args.tier)
        for name in sorted(machines):
            examples, steps, shards = machines[name]
            for shard in range(shards):
                tasks.append(("sm", prop_id, args.tier, seed,
                              (name, shard, examples, steps), deadline))
    if "gen" in only and hasattr(mod, "strategies"):
        strategies = mod.strategies(args.tier)
        nshards = max(1, min(args.jobs, 16))
        for name in sorted(strategies):
            examples = strategies[name][1]
            shards = strategies[name][2] if len(strategies[name]) > 2 else nshards
            for shard in range(shards):
                tasks.append(("gen", prop_id, args.tier, seed,
                              (name, shard, examples), deadline))
    harness_error = None
    if tasks:
        mpctx = multiprocessing.get_context("fork")
        with mpctx.Pool(args.jobs, maxtasksperchild=1) as pool:
            for res in pool.imap_unordered(_task, tasks, chunksize=1):
                if "harness_error" in res:
                    harness_error = res["harness_error"]
                    break
                if res["kind"] == "gen":
                    merged["shards"] += 1
                elif not res.get("capped"):
                    merged["exh_done"] += 1
                merge(res)
            pool.terminate()
    if harness_error:
        print(harness_error)
        print("HARNESS-ERROR property=%s" % prop_id)
        return 2

    wall = time.time() - t0
    # one violation per tag (smallest spec)
    bytag = {}
    for v in violations:
        size = len(json.dumps(v["spec"], default=str))
        if v["tag"] not in bytag or size < bytag[v["tag"]][0]:
            bytag[v["tag"]] = (size, v)
    extra = {}
    if hasattr(mod, "extra_evidence"):
        extra = mod.extra_evidence(merged)
    pool = merged["_pool"]
    for kind, quota in (("replay", 1), ("exh", 3), ("gen", 8)):
        for s in pool.get(kind, [])[:quota]:
            if len(merged["samples"]) < 8:
                merged["samples"].append(s)
    if len(merged["nontrivial"]) and not merged["samples"]:
        merged["samples"] = [{"note": "no sample retained"}]
    ev = _evidence(mod, args.tier, seed, merged, wall, len(bytag), extra)
    os.makedirs(os.path.join(OUT, "evidence"), exist_ok=True)
    evpath = os.path.join(OUT, "evidence", "%s.json" % prop_id)
    with open(evpath + ".part", "w") as fh:
        json.dump(ev, fh, indent=1, default=str)
    os.replace(evpath + ".part", evpath)

    for tag, n in sorted(merged["excluded_known"].items()):
        print("KNOWN-FINDING: property=%s %s (seen %d times)" % (prop_id, known[tag], n))
    print("%s %s seed=%d: %d evaluations, %d distinct non-trivial, %d rejected, "
          "%d replayed, %d shards (%d capped), %.1fs" % (
              prop_id, args.tier, seed, merged["evaluations"],
              len(merged["nontrivial"]), merged["rejected"], merged["replayed"],
              merged["shards"], merged["capped"], wall))
    if bytag:
        for tag, (_, v) in sorted(bytag.items()):
            path = v.get("replay_path") or write_replay(
                prop_id, v, {"tier": args.tier, "seed": seed})
            print("  [%s] %s" % (tag, v["message"][:400]))
            print("VIOLATION property=%s replay=%s" % (prop_id, path))
        return 1
    return 0
