# coding: utf-8
"""Independent oracle primitives on plain ``str`` -- no moclo, no Bio.Seq.

Everything a check compares the implementation against is computed here (or in
``model.py``) from first principles: complement table, rotation, circular
string search, IUPAC sets, enzyme geometry from Biopython's *numeric*
attributes, cut events, a reference DNA-pattern search that works on explicitly
rotated strings, and the denotation of a feature location.
"""
import re

# --------------------------------------------------------------------------
# letters

IUPAC = {
    "A": "A", "C": "C", "G": "G", "T": "T",
    "R": "AG", "Y": "CT", "S": "CG", "W": "AT", "K": "GT", "M": "AC",
    "B": "CGT", "D": "AGT", "H": "ACT", "V": "ACG", "N": "ACGT",
}
_COMP = {
    "A": "T", "C": "G", "G": "C", "T": "A",
    "R": "Y", "Y": "R", "S": "S", "W": "W", "K": "M", "M": "K",
    "B": "V", "V": "B", "D": "H", "H": "D", "N": "N",
}
_COMP.update({k.lower(): v.lower() for k, v in list(_COMP.items())})


def comp(s):
    return "".join(_COMP.get(c, c) for c in s)


def rc(s):
    """Reverse complement (IUPAC aware, case preserving)."""
    return "".join(_COMP.get(c, c) for c in reversed(s))


def rot(s, k):
    """Right rotation: the last k letters move to the front."""
    n = len(s)
    if n == 0:
        return s
    k %= n
    return s[n - k:] + s[:n - k] if k else s


def lrot(s, k):
    return rot(s, -k)


def least_rotation(s):
    """Lexicographically least rotation (no case folding)."""
    n = len(s)
    if n == 0:
        return s
    d = s + s
    best = 0
    for i in range(1, n):
        a, b = i, best
        j = 0
        while j < n and d[a + j] == d[b + j]:
            j += 1
        if j < n and d[a + j] < d[b + j]:
            best = i
    return d[best:best + n]


def canon(s):
    """Canonical representative of a circular word (least rotation, upper)."""
    return least_rotation(s.upper())


def circ_equal(a, b):
    """Equality of circular words, case-insensitive."""
    if len(a) != len(b):
        return False
    if not a:
        return True
    return b.upper() in (a.upper() * 2)


def circ_slice(s, start, length):
    """``length`` letters of the circle starting at ``start`` (may wrap, <= n)."""
    n = len(s)
    assert 0 <= length <= n
    start %= n
    return (s + s)[start:start + length]


def circ_find_all(s, w):
    """All start positions p in [0, n) where w occurs on the circle."""
    n = len(s)
    if not w or len(w) > n:
        return []
    d = (s + s[:len(w) - 1]).upper()
    w = w.upper()
    out = []
    p = d.find(w)
    while p != -1:
        out.append(p)
        p = d.find(w, p + 1)
    return out


def lin_find_all(s, w):
    out = []
    s = s.upper()
    w = w.upper()
    p = s.find(w)
    while p != -1:
        out.append(p)
        p = s.find(w, p + 1)
    return out


def iupac_match(pattern, word):
    """Does the nucleotide word match the IUPAC pattern letter by letter?"""
    if len(pattern) != len(word):
        return False
    for p, w in zip(pattern.upper(), word.upper()):
        if w not in IUPAC.get(p, ""):
            return False
    return True


# --------------------------------------------------------------------------
# enzymes (geometry from numeric attributes only)

class Geometry(object):
    """(site, n, k): recognition site, gap to the cut, 5' overhang length."""

    __slots__ = ("name", "site", "n", "k")

    def __init__(self, name, site, n, k):
        self.name, self.site, self.n, self.k = name, site, n, k

    @property
    def key(self):
        return (len(self.site), self.n, self.k)

    @property
    def rsite(self):
        return rc(self.site)

    def __repr__(self):
        return "Geometry(%s %s %d/%d)" % (self.name, self.site, self.n, self.k)


def geometry(enzyme):
    site = str(enzyme.site)
    n = int(enzyme.fst5) - int(enzyme.size)
    k = -int(enzyme.ovhg)
    return Geometry(enzyme.__name__, site, n, k)


_ENZ_CACHE = None


def enzymes():
    """Enzymes of C01's quantifier, sorted by (geometry, name)."""
    global _ENZ_CACHE
    if _ENZ_CACHE is None:
        from Bio.Restriction import AllEnzymes
        out = []
        for e in AllEnzymes:
            if e.is_unknown() or e.is_blunt() or e.cut_twice():
                continue
            if e.is_palindromic() or not e.is_5overhang():
                continue
            site = str(e.site)
            if set(site) - set("ACGT"):
                continue
            if int(e.fst5) < int(e.size) or int(e.ovhg) >= 0:
                continue
            out.append(e)
        out.sort(key=lambda e: (geometry(e).key, str(e.site), e.__name__))
        _ENZ_CACHE = out
    return _ENZ_CACHE


def enzyme_by_name(name):
    import Bio.Restriction
    return getattr(Bio.Restriction, name)


def geometries():
    """One representative list of enzymes per distinct (|site|, n, k, site)."""
    groups = {}
    for e in enzymes():
        g = geometry(e)
        groups.setdefault(g.key, []).append(e)
    return groups


def cut_events(seq, g, circular=True):
    """Single-stranded stretches the enzyme leaves on ``seq``.

    Returns a list of (start, strand) with start in [0, n): the k letters of
    the circle beginning at ``start`` form a 5' overhang.  strand +1: produced
    by a forward site (overhang lies downstream of the site), -1: by a
    reverse-complemented site (overhang lies upstream).
    """
    n = len(seq)
    out = []
    fwd = circ_find_all(seq, g.site) if circular else lin_find_all(seq, g.site)
    rev = circ_find_all(seq, g.rsite) if circular else lin_find_all(seq, g.rsite)
    for p in fwd:
        out.append(((p + len(g.site) + g.n) % n, +1))
    for p in rev:
        out.append(((p - g.n - g.k) % n, -1))
    return sorted(out)


def count_sites(seq, g, circular=True):
    if circular:
        return len(circ_find_all(seq, g.site)) + len(circ_find_all(seq, g.rsite))
    return len(lin_find_all(seq, g.site)) + len(lin_find_all(seq, g.rsite))


# --------------------------------------------------------------------------
# reference DNA-pattern semantics

def ref_regex(pattern, n_matches_n=True):
    """Independent transcription of a moclo DNA pattern into ``re`` syntax.

    The pattern dialect: IUPAC letters (upper case) stand for their sets, every
    other character is regex syntax passed through.  ``N`` additionally matches
    a literal N in the target when ``n_matches_n`` (moclo's documented choice).
    """
    out = []
    for ch in pattern:
        if ch in IUPAC and ch not in "ACGT":
            letters = IUPAC[ch] + ("N" if ch == "N" and n_matches_n else "")
            out.append("[" + letters + letters.lower() + "]")
        elif ch in "ACGT":
            out.append("[" + ch + ch.lower() + "]")
        else:
            out.append(ch)
    return re.compile("".join(out))


class RefMatch(object):
    __slots__ = ("start", "end", "spans", "texts")

    def __init__(self, start, end, spans, texts):
        self.start, self.end, self.spans, self.texts = start, end, spans, texts


def ref_search(pattern, s, circular, pos=0, endpos=None, rx=None):
    """Leftmost match of ``pattern`` on ``s`` by explicit rotation.

    For each start i (in [pos, min(n, endpos))) the pattern is matched,
    anchored, against the rotated string ``s[i:] + s[:i]`` (circular) or the
    suffix ``s[i:]`` (linear).  No doubling and no window arithmetic: a match
    can never exceed one turn.  Returns RefMatch with absolute spans
    (start + relative offsets, so spans past n mean "wrapped") and the texts of
    every group, or None.
    """
    rx = rx or ref_regex(pattern)
    n = len(s)
    stop = n if endpos is None else min(n, endpos)
    for i in range(max(pos, 0), stop):
        view = (s[i:] + s[:i]) if circular else s[i:]
        m = rx.match(view)
        if m is not None:
            spans = []
            texts = []
            for gi in range(0, (m.re.groups or 0) + 1):
                a, b = m.span(gi)
                if a == -1:
                    spans.append((-1, -1))
                    texts.append(None)
                else:
                    spans.append((a + i, b + i))
                    texts.append(m.group(gi))
            return RefMatch(i, i + m.end(), spans, texts)
    return None


def ref_all_starts(pattern, s, circular=True, rx=None):
    """All start positions at which the pattern matches (anchored)."""
    rx = rx or ref_regex(pattern)
    n = len(s)
    out = []
    for i in range(n):
        view = (s[i:] + s[:i]) if circular else s[i:]
        if rx.match(view) is not None:
            out.append(i)
    return out


# --------------------------------------------------------------------------
# feature denotation

def denote_parts(parts, seq):
    """Nucleotides denoted by location parts [(start, end, strand), ...].

    Coordinates are read modulo len(seq): [3:5) on a 4-mer is letters 3 and 0.
    A part longer than the record is not legal.  Strand -1 parts denote the
    reverse complement of the covered stretch.  Returns a tuple of per-part
    strings, in the order given.
    """
    n = len(seq)
    out = []
    for (a, b, strand) in parts:
        ln = b - a
        if ln < 0 or ln > n:
            raise ValueError("illegal part %r on length %d" % ((a, b, strand), n))
        w = circ_slice(seq, a % n, ln) if n else ""
        if strand == -1:
            w = rc(w)
        out.append(w)
    return tuple(out)


def loc_parts(location):
    """[(start, end, strand)] of a Biopython location (ints)."""
    return [(int(p.start), int(p.end), p.strand) for p in location.parts]


def self_test():
    assert rc("AAGC") == "GCTT" and rc("aN") == "Nt"
    assert rot("ABCD", 1) == "DABC" and rot("ABCD", -1) == "BCDA"
    assert canon("GTAC") == "ACGT" and circ_equal("GTAC", "acgt")
    assert circ_find_all("GTAC", "CG") == [3]
    assert circ_find_all("AAAA", "AA") == [0, 1, 2, 3]
    from Bio.Data.IUPACData import ambiguous_dna_values as adv
    for k, v in IUPAC.items():
        if k != "N":
            assert set(adv[k]) == set(v), k
    assert set(adv["N"]) == set("ACGT")
    m = ref_search("A(CG)T", "GTAC", True)
    assert m and m.start == 2 and m.spans[1] == (3, 5) and m.texts[1] == "CG"
    assert ref_search("A(CG)T", "GTAC", False) is None
    assert denote_parts([(3, 5, 1)], "ABCD") == ("DA",)
    assert denote_parts([(-1, 1, 1)], "ABCD") == ("DA",)
