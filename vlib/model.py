# coding: utf-8
"""Reference model of the assembly verdict: a function of the overhang graph
only (C03), written directly from the statement."""
from . import dna


class Outcome(object):
    def __init__(self, errors=(), chain=None, unused=None, stall=None, dup_pairs=()):
        self.errors = set(errors)       # admissible exception class names
        self.chain = chain              # list of module indices (product)
        self.unused = unused            # set of module indices
        self.stall = stall              # overhang for MissingModule
        self.dup_pairs = list(dup_pairs)

    @property
    def is_product(self):
        return not self.errors

    def __repr__(self):
        if self.is_product:
            return "Product(chain=%r, unused=%r)" % (self.chain, sorted(self.unused))
        return "Errors(%s%s)" % ("|".join(sorted(self.errors)),
                                 ", stall=%s" % self.stall if self.stall else "")


def verdict(vdown, vup, mods):
    """mods: list of (start, end) overhang strings; indices identify modules.

    A pair of *different* modules collides when their start overhangs are
    equal or reverse-complementary; a single module whose start overhang is
    its own reverse complement is not a pair.  When several error conditions
    hold, any of them is admissible (the statement does not order them).
    """
    vdown, vup = vdown.upper(), vup.upper()
    mods = [(s.upper(), e.upper()) for s, e in mods]
    errors = set()
    if vdown == vup:
        errors.add("InvalidSequence")
    dups = []
    for i in range(len(mods)):
        for j in range(i + 1, len(mods)):
            if mods[i][0] == mods[j][0] or mods[i][0] == dna.rc(mods[j][0]):
                dups.append((i, j))
    if dups:
        errors.add("DuplicateModules")
    if errors:
        return Outcome(errors, dup_pairs=dups)
    remaining = {s: i for i, (s, e) in enumerate(mods)}
    cur = vdown
    chain = []
    while cur != vup:
        if cur not in remaining:
            return Outcome({"MissingModule"}, stall=cur)
        i = remaining.pop(cur)
        chain.append(i)
        cur = mods[i][1]
    return Outcome((), chain=chain, unused=set(remaining.values()))
