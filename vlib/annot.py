# coding: utf-8
"""G-FEAT / G-REF: feature tables and reference lists for the participants of a
generated assembly, drawn relative to the retained arc known by construction,
and the positional oracle that maps them into the product."""
from collections import Counter

from hypothesis import strategies as st

from . import dna, plasmid, rec
from .runner import Reject

TYPES = ["misc_feature", "CDS", "promoter", "source", "rep_origin"]
REF_POOL = [
    {"title": "A modular cloning system", "authors": "Weber E.", "journal": "PLoS ONE 6", "pubmed": "21364738"},
    {"title": "A highly characterized yeast toolkit", "authors": "Lee M.E.", "journal": "ACS Synth Biol 4", "pubmed": "25871405"},
    {"title": "CIDAR MoClo", "authors": "Iverson S.V.", "journal": "ACS Synth Biol 5", "pubmed": "26479688"},
    # references that differ from each other in one field only (journal,
    # comment, authors): still distinct references
    {"title": "Direct Submission", "authors": "Doe J.", "journal": "Submitted (01-JAN-2015) Lab A"},
    {"title": "Direct Submission", "authors": "Doe J.", "journal": "Submitted (02-FEB-2016) Lab A"},
    {"title": "Direct Submission", "authors": "Doe J.", "journal": "Submitted (02-FEB-2016) Lab A", "comment": "revised"},
    {"title": "Direct Submission", "authors": "Roe R.", "journal": "Submitted (02-FEB-2016) Lab A"},
    {"title": "Golden Gate shuffling", "authors": "Engler C.", "journal": "PLoS ONE 4", "pubmed": "19436741"},
    # references with a base span, as GenBank-parsed ones have
    {"title": "EcoFlex", "authors": "Moore S.J.", "journal": "ACS Synth Biol 5", "pubmed": "27096716", "loc": [0, 1]},
    {"title": "Paper nine", "authors": "Nine N.", "journal": "J Nine 9", "loc": [0, 2]},
    {"title": "Paper ten", "authors": "Ten T.", "journal": "J Ten 10", "pubmed": "10101010"},
    {"title": "Paper eleven", "authors": "Eleven E.", "journal": "J Eleven 11", "loc": [0, 1]},
    {"title": "Paper twelve", "authors": "Twelve T.", "journal": "J Twelve 12"},
    {"title": "Paper thirteen", "authors": "Thirteen T.", "journal": "J Thirteen 13", "medline": "1313"},
]


@st.composite
def logical_arc(draw, n, A, L):
    """One logical part as a circular arc (start, length) on a record of length
    n, placed relative to the retained arc (A, L)."""
    shape = draw(st.integers(0, 11))
    D = n - L                                      # discarded length
    if shape <= 3:                                 # strictly inside
        off = draw(st.integers(0, L - 1))
        ln = draw(st.integers(1, L - off))
    elif shape == 4:                               # flush with the left boundary
        off, ln = 0, draw(st.integers(1, L))
    elif shape == 5:                               # flush with the right boundary
        ln = draw(st.integers(1, L))
        off = L - ln
    elif shape == 6:                               # the whole retained arc
        off, ln = 0, L
    elif shape == 7 and D >= 1:                    # crossing the left boundary
        before = draw(st.integers(1, min(D, 6)))
        ln = before + draw(st.integers(1, min(L, 8)))
        off = -before
    elif shape == 8 and D >= 1:                    # crossing the right boundary
        inside = draw(st.integers(1, min(L, 8)))
        ln = inside + draw(st.integers(1, min(D, 6)))
        off = L - inside
    elif shape == 9 and D >= 1:                    # entirely in the discarded region
        o = draw(st.integers(0, D - 1))
        ln = draw(st.integers(1, D - o))
        off = L + o
    elif shape == 10:                              # whole record
        off, ln = draw(st.integers(0, n - 1)), n
    else:                                          # anywhere
        off = draw(st.integers(0, n - 1))
        ln = draw(st.integers(1, n))
    return [(A + off) % n, min(ln, n)]


@st.composite
def feature_table(draw, n, A, L, max_feats=4, prefix="f", nrefs=0):
    feats = []
    for i in range(draw(st.integers(0, max_feats))):
        nparts = 1 if draw(st.integers(0, 3)) else draw(st.integers(2, 3))
        strand = draw(st.sampled_from([1, -1, None]))
        parts = []
        for _ in range(nparts):
            a, ln = draw(logical_arc(n, A, L))
            s = strand if draw(st.integers(0, 5)) else draw(st.sampled_from([1, -1, None]))
            parts.append([a, ln, s, draw(st.sampled_from(["simple", "split"]))])
        quals = {"label": ["%s%d" % (prefix, i)]}
        if draw(st.booleans()):
            quals["note"] = [draw(st.sampled_from(["x", "two words", "100%"]))]
        f = {"type": draw(st.sampled_from(TYPES)), "arcs": parts, "quals": quals}
        if nrefs and draw(st.integers(0, 2)):
            f["cite"] = draw(st.lists(st.integers(1, nrefs), min_size=1, max_size=min(3, nrefs),
                                      unique=True))
            if nrefs >= 10 and draw(st.booleans()):
                f["cite"][0] = draw(st.integers(10, nrefs))
                f["cite"] = list(dict.fromkeys(f["cite"]))
        feats.append(f)
    return feats


def arcs_to_parts(arcs, n):
    """Logical arcs -> concrete location parts in the coordinates they were
    drawn in (before the extra real rotation): an arc that wraps the origin is
    written as the compound join(a..n, 0..b)."""
    parts = []
    for a, ln, s, form in arcs:
        a %= n
        ln = max(1, min(ln, n))
        if a + ln <= n:
            parts.append([a, a + ln, s])
        else:
            two = [[a, n, s], [0, a + ln - n, s]]
            parts.extend(two[::-1] if s == -1 and form == "split" else two)
    return parts


def positions(arcs, n, shift=0):
    """Counter{(position, strand)} covered by the logical arcs, after a right
    rotation by ``shift``."""
    c = Counter()
    for a, ln, s, form in arcs:
        a %= n
        ln = max(1, min(ln, n))
        for i in range(ln):
            c[((a + i + shift) % n, s)] += 1
    return c


def arcs_inside(arcs, n, A, L, shift=0):
    for a, ln, s, form in arcs:
        a = (a + shift) % n
        ln = max(1, min(ln, n))
        if (a - A) % n + ln > L:
            return False
    return True


def touch(entities, spec):
    """Inspect some participants before assembling, as a user would."""
    for i in spec.get("touch") or []:
        ent = entities[i % len(entities)]
        if ent.is_valid():
            ent.overhang_start()
            ent.overhang_end()
            ent.target_sequence()


def ref_tuple(r):
    """Comparable fields of a pool reference spec."""
    return (r.get("title", ""), r.get("authors", ""), r.get("journal", ""), r.get("pubmed", ""),
            r.get("medline", ""), r.get("comment", ""))


def participant_record(b, pspec):
    """Build the annotated CircularRecord of a participant.

    Features were drawn in the coordinates of the record rotated by
    (b.rot - feat_rot); the final record is obtained with moclo's own ``>>``
    so that past-the-end locations are exactly the ones rotation produces."""
    from Bio.Seq import Seq
    from moclo.record import CircularRecord
    extra = pspec.get("feat_rot", 0) % b.n
    pre = dna.rot(b.word0, (b.rot - extra) % b.n)
    if b.case:
        from . import gen
        pre = gen.apply_case(pre, b.case)
    spec = {"seq": pre, "id": b.id, "name": pspec.get("name", b.id),
            "feats": [{"type": f["type"], "parts": arcs_to_parts(f["arcs"], b.n),
                       "quals": f["quals"], "cite": f.get("cite")} for f in pspec.get("feats") or []],
            "ann": [{"topology": "circular", "molecule_type": "DNA"}, {}, {"molecule_type": "DNA"},
                    {"topology": "Circular", "comment": "hand-made"}][pspec.get("ann_style", 0) % 4]}
    if pspec.get("refs") is not None:
        spec["refs"] = [REF_POOL[i % len(REF_POOL)] for i in pspec["refs"]]
    if pspec.get("tracks"):
        spec["tracks"] = {"phred_quality": "index"}       # per-letter annotations
    r = rec.build(spec)
    if extra:
        r = r >> extra
    return r


@st.composite
def annotated_assembly(draw, max_chain=4, max_seg=30, with_refs=False, enzyme=None):
    spec = draw(plasmid.assembly_spec(max_chain=max_chain, max_seg=max_seg, enzyme=enzyme))
    try:
        e, g, bv, bms, M, V = plasmid.build_assembly(spec)
    except Reject:
        import hypothesis
        hypothesis.reject()
    for b, p in [(bv, spec["vector"])] + list(zip(bms, spec["modules"])):
        extra = draw(st.integers(0, b.n - 1)) if draw(st.booleans()) else 0
        p["feat_rot"] = extra
        A, L = b.arc
        A0 = (A - extra) % b.n          # arc in the coordinates the features are drawn in
        nrefs = 0
        if with_refs and draw(st.integers(0, 3)):
            # mostly short lists; one in eight has 10-13 entries (two-digit indices)
            long_list = draw(st.integers(0, 7)) == 0
            refs = draw(st.lists(st.integers(0, len(REF_POOL) - 1), min_size=10 if long_list else 0,
                                 max_size=13 if long_list else 5, unique=True))
            p["refs"] = refs
            nrefs = len(refs)
        p["feats"] = draw(feature_table(b.n, A0, L, prefix=b.id + "_", nrefs=nrefs))
        # hand-made records often lack the topology key (or spell it differently)
        p["ann_style"] = draw(st.integers(0, 3))
        if draw(st.integers(0, 4)) == 0:
            p["tracks"] = True
    if draw(st.integers(0, 2)) == 0:
        # participants inspected (is_valid, overhangs, target) before the call
        spec["touch"] = draw(st.lists(st.integers(0, len(bms)), min_size=1, max_size=3))
    return spec


def expected_images(bv, bms, spec):
    """Expected inherited features of the product aligned at the documented
    word up(v).b.prod(up(m).t): list of (type, quals, Counter{(pos, strand)},
    source label), plus the list of dropped labels."""
    order = [bv] + bms
    pspecs = [spec["vector"]] + spec["modules"]
    offsets = []
    off = 0
    for b in order:
        offsets.append(off)
        off += b.arc[1]
    total = off
    images, dropped = [], []
    for b, p, o in zip(order, pspecs, offsets):
        A, L = b.arc
        extra = p.get("feat_rot", 0) % b.n
        for f in p.get("feats") or []:
            if arcs_inside(f["arcs"], b.n, A, L, shift=extra):
                c = Counter()
                for (pos, s), k in positions(f["arcs"], b.n, shift=extra).items():
                    c[((o + (pos - A) % b.n) % total, s)] += k
                images.append((f["type"], f["quals"], c, f["quals"]["label"][0], b.id, f.get("cite")))
            else:
                dropped.append(f["quals"]["label"][0])
    return images, dropped, offsets, total
