# coding: utf-8
"""G-STRUCT: the kit classes, generic classes over every enzyme, user-defined
parts, and generated instances of their structures (with mutators)."""
import importlib
import inspect

from hypothesis import strategies as st

from . import dna, gen, plasmid
from .runner import Reject

KIT_MODULES = ["ytk", "cidar", "ecoflex", "moclo", "plant"]
_KIT = None


def kit_classes():
    """{qualified name: class} of the concrete classes of the five kits."""
    global _KIT
    if _KIT is None:
        from moclo.core._structured import StructuredRecord
        out = {}
        for kit in KIT_MODULES:
            m = importlib.import_module("moclo.kits." + kit)
            for name, obj in sorted(vars(m).items()):
                if inspect.isclass(obj) and issubclass(obj, StructuredRecord) \
                        and obj.__module__ == m.__name__ and is_concrete(obj):
                    out["%s.%s" % (kit, name)] = obj
        _KIT = out
    return _KIT


def is_concrete(cls):
    """A class a user can instantiate: a cutter is declared and its structure
    can be derived (own criterion; moclo's helper is code under test)."""
    if inspect.isabstract(cls) or getattr(cls, "cutter", NotImplemented) is NotImplemented:
        return False
    if getattr(cls, "signature", None) is NotImplemented:
        return False
    try:
        return isinstance(cls.structure(), str)
    except NotImplementedError:
        return False


def kit_class_names():
    return sorted(kit_classes())


_USER = {}


def resolve_class(name, fresh=False):
    """'ytk.YTKPart1' | 'gen:M:FokI' | 'gen:V:FokI' | 'part:M:BsaI:UP:DOWN'"""
    if name.startswith("gen:"):
        _, role, ename = name.split(":")
        M, V = plasmid.generic_classes(dna.enzyme_by_name(ename), fresh=fresh)
        return M if role == "M" else V
    if name.startswith("part:"):
        if name in _USER and not fresh:
            return _USER[name]
        from moclo.core import AbstractPart
        _, role, ename, up, down = name.split(":")
        e = dna.enzyme_by_name(ename)
        M, V = plasmid.generic_classes(e, fresh=fresh)
        cls = type(str("UserPart"), (AbstractPart, M if role == "M" else V),
                   {"cutter": e, "signature": (up, down)})
        if not fresh:
            _USER[name] = cls
        return cls
    return kit_classes()[name]


def role_of(cls):
    from moclo.core import AbstractVector
    return "vector" if issubclass(cls, AbstractVector) else "module"


def cutter_geometry(cls):
    return dna.geometry(cls.cutter)


# --------------------------------------------------------------------------
# instances

def struct_word(pattern, filler, stars, backbone, geoms, force=None):
    """Instantiate ``pattern`` and append ``backbone``; remove stray sites of
    the given geometries.  Returns (word, groups) with groups = [(start, end)]
    of the capture groups (unrotated coordinates)."""
    toks = gen.parse_pattern(pattern)
    text, groups = gen.instantiate(toks, filler, stars)
    fixed = {}
    pos = 0
    si = 0
    for t in toks:
        if t[0] == "lit":
            if t[1] in "ACGT":
                fixed[pos] = "fixed"
            pos += 1
        elif t[0] == "star":
            ln = gen.run_length(t, stars[si % len(stars)] if stars else 0)
            si += 1
            pos += ln
    chars = list(text)
    for gi, word in (force or {}).items():
        a, b = groups[gi - 1]
        if b - a != len(word):
            raise Reject("force-length")
        for j, ch in enumerate(word):
            chars[a + j] = ch
            fixed[a + j] = "fixed"
    word = "".join(chars) + backbone
    n = len(word)
    sites = []
    for g in geoms:
        sites += [g.site, g.rsite]
    prot = dict(fixed)
    for w in set(sites):
        for p in dna.circ_find_all(word, w):
            idx = [(p + j) % n for j in range(len(w))]
            if all(fixed.get(i) == "fixed" for i in idx):
                for i in idx:
                    prot[i] = "site"
    # an occurrence is legitimate iff made of designed-site positions only
    word = gen.repair_sites(word, sites, prot, circular=True, max_pass=6 * n + 50)
    return word, groups


def apply_mutations(word, muts, geom):
    for m in muts or []:
        kind = m[0]
        n = len(word)
        if kind == "sub" and n:
            i = m[1] % n
            word = word[:i] + m[2] + word[i + 1:]
        elif kind == "ins_site":
            i = m[1] % (n + 1)
            w = geom.site if m[2] else geom.rsite
            word = word[:i] + w + word[i:]
        elif kind == "trunc" and n > 1:
            word = word[:max(1, m[1] % n)]
        elif kind == "append":
            word = word + m[1]
        elif kind == "del" and n > 1:
            i = m[1] % n
            word = word[:i] + word[i + 1:]
        elif kind == "tandem":
            # a second copy of the recognition site overlapping an existing one
            # (possible when the site has a border, e.g. CGTCTC + GTCTC)
            w = geom.site if m[2] else geom.rsite
            b = max([k for k in range(1, len(w)) if w[:k] == w[-k:]] or [0])
            occ = dna.circ_find_all(word, w)
            if b and occ:
                p = occ[m[1] % len(occ)]
                e = p + len(w)
                if e <= n:
                    word = word[:e] + w[b:] + word[e:]
    return word


def build_instance(spec):
    """-> (cls, rotated word, unrotated word, groups) for an instance spec."""
    cls = resolve_class(spec["cls"])
    g = cutter_geometry(cls)
    geoms = [g] + [dna.geometry(dna.enzyme_by_name(x)) for x in spec.get("also_clean", [])]
    word, groups = struct_word(cls.structure(), spec["filler"], spec["stars"],
                               spec.get("b", ""), geoms, spec.get("force"))
    word = apply_mutations(word, spec.get("muts"), g)
    word = gen.apply_case(word, spec.get("case")) if spec.get("case") else word
    n = len(word)
    rot = spec.get("rot", 0) % n if n else 0
    return cls, dna.rot(word, rot), word, groups


@st.composite
def mutation(draw, other_words=()):
    kind = draw(st.integers(0, 9))
    if kind <= 3:
        return ["sub", draw(st.integers(0, 400)), draw(st.sampled_from("ACGT"))]
    if kind == 4:
        return ["sub", draw(st.integers(0, 400)), draw(st.sampled_from("RYSWKMBDHVNacgtn"))]
    if kind <= 6:
        return ["ins_site", draw(st.integers(0, 400)), draw(st.booleans())]
    if kind == 7:
        if draw(st.booleans()):
            return ["tandem", draw(st.integers(0, 3)), draw(st.booleans())]
        return ["trunc", draw(st.integers(1, 400))]
    if kind == 8:
        return ["del", draw(st.integers(0, 400))]
    return ["append", draw(gen.dna_text(1, 30))]


@st.composite
def instance_spec(draw, cls_name, max_star=30, max_b=30, n_mut=(0, 0), with_case=False,
                  min_b=0):
    spec = {
        "cls": cls_name,
        "filler": draw(gen.dna_text(4, 48)),
        "stars": draw(st.lists(st.integers(0, max_star), min_size=1, max_size=3)),
        "b": draw(gen.dna_text(min_b, max_b)),
        "rot": draw(st.integers(0, 600)),
    }
    k = draw(st.integers(*n_mut))
    if k:
        spec["muts"] = [draw(mutation()) for _ in range(k)]
    if with_case and draw(st.integers(0, 3)) == 0:
        spec["case"] = draw(gen.case_masks())
    return spec


def all_class_names(include_generic=True):
    names = kit_class_names()
    if include_generic:
        for e in dna.enzymes():
            names.append("gen:M:" + e.__name__)
            names.append("gen:V:" + e.__name__)
    return names
