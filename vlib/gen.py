# coding: utf-8
"""Generators: Hypothesis strategies that draw plain JSON-able specs, and the
deterministic builders that turn a spec into strings / Biopython / moclo
objects.  Construction, not rejection."""
from hypothesis import strategies as st

from . import dna
from .runner import Reject

ACGT = "ACGT"


def dna_text(min_size=0, max_size=40, alphabet=ACGT):
    return st.text(alphabet=alphabet, min_size=min_size, max_size=max_size)


# --------------------------------------------------------------------------
# DNA pattern dialect: literal | IUPAC letter | X* | X*? | ( )

def parse_pattern(p):
    """-> list of tokens ("lit", code) | ("star", code, lazy, min) | ("open",) | ("close",)

    X* / X*? are runs of zero or more, X+ / X+? of one or more.  Syntax outside
    this dialect makes the instance generator give up on that pattern (Reject),
    it is not a verdict on the code under test."""
    toks = []
    i = 0
    while i < len(p):
        ch = p[i]
        if ch in "acgt":
            ch = ch.upper()      # patterns are matched case-insensitively
        if ch == "(":
            toks.append(("open",))
            i += 1
        elif ch == ")":
            toks.append(("close",))
            i += 1
        elif ch in dna.IUPAC:
            nxt = p[i + 1:i + 2]
            if nxt in ("*", "+"):
                lazy = p[i + 2:i + 3] == "?"
                toks.append(("star", ch, lazy, 1 if nxt == "+" else 0))
                i += 3 if lazy else 2
            elif nxt == "{":
                # counted repeat X{m}, X{m,}, X{m,n} (optionally lazy)
                j = p.find("}", i)
                body = p[i + 2:j] if j != -1 else ""
                try:
                    if "," in body:
                        lo, hi = body.split(",", 1)
                        lo = int(lo or 0)
                        hi = int(hi) if hi.strip() else None
                    else:
                        lo = hi = int(body)
                except ValueError:
                    raise Reject("unparseable-structure")
                lazy = p[j + 1:j + 2] == "?"
                if hi is not None and hi == lo:
                    toks.extend([("lit", ch)] * lo)
                else:
                    toks.append(("star", ch, lazy, lo, hi))
                i = j + (2 if lazy else 1)
            else:
                toks.append(("lit", ch))
                i += 1
        else:
            raise Reject("unparseable-structure")
    return toks


def run_length(tok, drawn):
    """Length of a run token given the drawn length: at least its minimum, at
    most its maximum (X{m,n})."""
    lo = tok[3] if len(tok) > 3 else 0
    hi = tok[4] if len(tok) > 4 else None
    ln = max(drawn, lo)
    return ln if hi is None else min(ln, hi)


def pick(code, filler):
    """Map a filler nucleotide to a member of the IUPAC set of ``code``."""
    s = dna.IUPAC[code.upper()]
    return s[ACGT.index(filler.upper()) % len(s)]


def instantiate(tokens, filler, star_lengths):
    """Instantiate a token list.

    ``filler``: string over ACGT consumed one letter per literal/star letter
    (cycled if short); ``star_lengths``: list consumed one per star token
    (cycled).  Returns (text, groups) where groups = [(start, end)] of each
    capture group in order of opening.
    """
    out = []
    groups = []
    stack = []
    fi = 0
    si = 0
    pos = 0
    flen = max(1, len(filler))
    for t in tokens:
        if t[0] == "open":
            stack.append((len(groups), pos))
            groups.append(None)
        elif t[0] == "close":
            gi, start = stack.pop()
            groups[gi] = (start, pos)
        elif t[0] == "lit":
            f = filler[fi % flen] if filler else "A"
            fi += 1
            out.append(pick(t[1], f))
            pos += 1
        else:
            ln = star_lengths[si % len(star_lengths)] if star_lengths else 0
            ln = run_length(t, ln)
            si += 1
            for _ in range(ln):
                f = filler[fi % flen] if filler else "A"
                fi += 1
                out.append(pick(t[1], f))
            pos += ln
    return "".join(out), groups


def min_length(tokens):
    return sum(1 for t in tokens if t[0] == "lit")


def count_stars(tokens):
    return sum(1 for t in tokens if t[0] == "star")


def apply_case(s, mask):
    """mask: 'u' upper, 'l' lower, or a string of 0/1 cycled per letter."""
    if mask in (None, "u"):
        return s.upper()
    if mask == "l":
        return s.lower()
    if not mask:
        return s
    return "".join(c.lower() if mask[i % len(mask)] == "1" else c.upper()
                   for i, c in enumerate(s))


def case_masks():
    return st.one_of(st.just("u"), st.just("l"),
                     st.text(alphabet="01", min_size=1, max_size=12))


# --------------------------------------------------------------------------
# site repair

def repair_sites(seq, sites, protected, circular=True, max_pass=60):
    """Remove occurrences of any word in ``sites`` that are not designed.

    ``protected``: set of positions (mod n) that must not be edited and whose
    occurrences are legitimate when the occurrence lies entirely inside a
    designed-site interval listed in ``keep`` (derived: an occurrence is
    legitimate iff all of its positions are protected *as site positions*).
    ``protected`` is a dict position -> "site" | "fixed".
    Deterministic; raises Reject if it does not converge.
    """
    s = list(seq)
    n = len(s)
    words = []
    for w in sites:
        w = w.upper()
        if w not in words:
            words.append(w)
    for _ in range(max_pass):
        changed = False
        text = "".join(s)
        for w in words:
            occ = dna.circ_find_all(text, w) if circular else dna.lin_find_all(text, w)
            for p in occ:
                idx = [(p + j) % n for j in range(len(w))]
                if all(protected.get(i) == "site" for i in idx):
                    continue
                free = [i for i in idx if i not in protected]
                if not free:
                    raise Reject("repair-blocked")
                i = free[len(free) // 2]
                c = s[i]
                up = c.upper()
                nxt = ACGT[(ACGT.index(up) + 1) % 4] if up in ACGT else "A"
                s[i] = nxt if c.isupper() else nxt.lower()
                changed = True
                break
            if changed:
                break
        if not changed:
            return "".join(s)
    raise Reject("repair-diverged")
