# coding: utf-8
"""G-GEN: well-formed generic modules and vectors with a decomposition known by
construction (standard.rst canonical decompositions), overhang chains, and the
builders that turn their specs into moclo objects."""
from hypothesis import strategies as st

from . import dna, gen
from .runner import Reject

ACGT = "ACGT"


def _fit(s, n, pad="A"):
    s = "".join(c for c in (s or "") if c.upper() in ACGT)
    if len(s) >= n:
        return s[:n]
    return s + pad * (n - len(s))


class Built(object):
    """A generated plasmid and what is known about it by construction."""

    def __init__(self, role, g, segs, rot_, case=None, rid="rec", also=()):
        self.role = role
        self.g = g
        self.id = rid
        names = [n for n, _ in segs]
        texts = [t for _, t in segs]
        word = "".join(texts)
        n = len(word)
        # protected positions: designed sites and overhangs
        prot = {}
        pos = 0
        offs = {}
        for name, t in segs:
            offs[name] = (pos, len(t))
            if name in ("site", "rsite"):
                for i in range(pos, pos + len(t)):
                    prot[i] = "site"
            elif name in ("o5", "o3", "o_up", "o_down"):
                for i in range(pos, pos + len(t)):
                    prot[i] = "fixed"
            pos += len(t)
        sites = [g.site, g.rsite]
        for g2 in also:
            sites += [g2.site, g2.rsite]
        word = gen.repair_sites(word, sites, prot, circular=True,
                                max_pass=6 * n + 50)
        self.offs = offs
        self.word0 = word                      # unrotated, upper
        self.rot = rot_ % n if n else 0
        self.case = case
        self.seq = gen.apply_case(dna.rot(word, self.rot), case)
        self.n = n

    def seg(self, name):
        a, ln = self.offs[name]
        return self.word0[a:a + ln]

    # --- known decomposition -------------------------------------------
    @property
    def up(self):
        return self.seg("o5") if self.role == "module" else self.seg("o_up")

    @property
    def down(self):
        return self.seg("o3") if self.role == "module" else self.seg("o_down")

    @property
    def arc(self):
        """(start, length) of the retained fragment in *rotated* coordinates."""
        if self.role == "module":
            a = self.offs["o5"][0]
            ln = self.offs["o5"][1] + self.offs["t"][1]
        else:
            a = self.offs["o_up"][0]
            ln = self.offs["o_up"][1] + self.offs["b"][1]
        return ((a + self.rot) % self.n, ln)

    @property
    def fragment(self):
        """Retained fragment: leading overhang kept, trailing one dropped."""
        if self.role == "module":
            return self.seg("o5") + self.seg("t")
        return self.seg("o_up") + self.seg("b")

    @property
    def structure_region(self):
        """(start, length) in rotated coordinates of the flanking structure
        (site..site), for the 'origin inside the structure' classification."""
        if self.role == "module":
            a = self.offs["site"][0]
            e = self.offs["rsite"][0] + self.offs["rsite"][1]
        else:
            a = self.offs["o_down"][0]
            e = self.offs["o_up"][0] + self.offs["o_up"][1]
        return ((a + self.rot) % self.n, e - a)

    def origin_inside_structure(self):
        a, ln = self.structure_region
        # origin (position 0) strictly inside (a, a+ln) on the circle
        return 0 < (0 - a) % self.n < ln

    def record(self, **extra):
        from Bio.Seq import Seq
        from moclo.record import CircularRecord
        return CircularRecord(Seq(self.seq), id=self.id, name=self.id, **extra)


def build_module(g, m, rid="m", also=()):
    segs = [
        ("site", g.site), ("x", _fit(m.get("x"), g.n)),
        ("o5", _fit(m["o5"], g.k)), ("t", _fit(m.get("t"), max(2, len(m.get("t") or "")))),
        ("o3", _fit(m["o3"], g.k)), ("y", _fit(m.get("y"), g.n)),
        ("rsite", g.rsite), ("b", _fit(m.get("b"), len(m.get("b") or ""))),
    ]
    return Built("module", g, segs, m.get("rot", 0), m.get("case"), m.get("id", rid), also)


def build_vector(g, v, rid="v", also=()):
    segs = [
        ("o_down", _fit(v["o_down"], g.k)), ("y", _fit(v.get("y"), g.n)),
        ("rsite", g.rsite), ("p", _fit(v.get("p"), len(v.get("p") or ""))),
        ("site", g.site), ("x", _fit(v.get("x"), g.n)),
        ("o_up", _fit(v["o_up"], g.k)), ("b", _fit(v.get("b"), max(2, len(v.get("b") or "")))),
    ]
    return Built("vector", g, segs, v.get("rot", 0), v.get("case"), v.get("id", rid), also)


_CLASS_CACHE = {}


def generic_classes(enzyme, fresh=False):
    """(ModuleClass, VectorClass) deriving their structure from the enzyme."""
    from moclo.core import AbstractModule, AbstractVector
    if fresh:
        return (type(str("GenModule_" + enzyme.__name__), (AbstractModule,), {"cutter": enzyme}),
                type(str("GenVector_" + enzyme.__name__), (AbstractVector,), {"cutter": enzyme}))
    key = enzyme.__name__
    if key not in _CLASS_CACHE:
        _CLASS_CACHE[key] = generic_classes(enzyme, fresh=True)
    return _CLASS_CACHE[key]


def expected_product(bv, chain):
    """standard.rst 'Uniqueness of the assembled plasmid' from builder segments."""
    return (bv.fragment + "".join(b.fragment for b in chain)).upper()


# --------------------------------------------------------------------------
# strategies

def enzyme_names():
    return [e.__name__ for e in dna.enzymes()]


def enzyme_strategy():
    """Geometry first (uniform over the 20 geometries), then a member."""
    groups = dna.geometries()
    keys = sorted(groups)
    return st.sampled_from(keys).flatmap(
        lambda k: st.sampled_from([e.__name__ for e in groups[k]]))


def collides(a, b):
    a, b = a.upper(), b.upper()
    return a == b or a == dna.rc(b)


@st.composite
def clean_chain(draw, k, max_len, allow_palindromes=False, strict_last=False):
    """Overhangs o_0..o_L (L >= 1): pairwise distinct; start overhangs
    o_0..o_{L-1} pairwise non reverse-complementary (and non palindromic unless
    allowed)."""
    want = draw(st.integers(1, max_len))
    cands = draw(st.lists(gen.dna_text(k, k), min_size=want + 1, max_size=want + 6, unique=True))
    starts = []
    rest = []
    for o in cands:
        pal = dna.rc(o) == o
        ok = all(not collides(o, s) for s in starts) and (allow_palindromes or not pal)
        if ok and len(starts) < want:
            starts.append(o)
        else:
            rest.append(o)
    if not starts:
        starts = ["A" * k]
        rest = [o for o in rest if o != starts[0]]
    last = [o for o in rest if o not in starts]
    if strict_last:
        # the closing overhang must not collide with any start either, so that
        # the reverse-complemented assembly is unambiguous as well
        import itertools
        pool = last + ["".join(t) for t in itertools.islice(itertools.product(ACGT, repeat=k), 0, 300)]
        last = [o for o in pool if all(not collides(o, s_) for s_ in starts)
                and (allow_palindromes or dna.rc(o) != o)]
        if not last:
            starts = starts[:1]
            last = [o for o in pool if not collides(o, starts[0])
                    and (allow_palindromes or dna.rc(o) != o)]
    if not last:
        # deterministic fallback: first k-mer not used as a start
        import itertools
        for tup in itertools.product(ACGT, repeat=k):
            o = "".join(tup)
            if o not in starts:
                last = [o]
                break
    return starts + [last[0]]


@st.composite
def module_body(draw, g, max_seg=40, min_t=2):
    return {
        "x": draw(gen.dna_text(g.n, g.n)), "y": draw(gen.dna_text(g.n, g.n)),
        "t": draw(gen.dna_text(min_t, max_seg)), "b": draw(gen.dna_text(0, max_seg)),
        "rot": draw(st.integers(0, 4 * max_seg + 60)),
    }


@st.composite
def vector_body(draw, g, max_seg=40):
    return {
        "x": draw(gen.dna_text(g.n, g.n)), "y": draw(gen.dna_text(g.n, g.n)),
        "p": draw(gen.dna_text(0, max_seg)), "b": draw(gen.dna_text(2, max_seg)),
        "rot": draw(st.integers(0, 4 * max_seg + 60)),
    }


@st.composite
def assembly_spec(draw, max_chain=6, max_seg=40, enzyme=None, allow_palindromes=True,
                  strict_last=False):
    ename = enzyme or draw(enzyme_strategy())
    g = dna.geometry(dna.enzyme_by_name(ename))
    chain = draw(clean_chain(g.k, max_chain, allow_palindromes, strict_last))
    L = len(chain) - 1
    v = draw(vector_body(g, max_seg))
    v["o_down"], v["o_up"] = chain[0], chain[L]
    mods = []
    for i in range(L):
        m = draw(module_body(g, max_seg))
        m["o5"], m["o3"] = chain[i], chain[i + 1]
        m["id"] = "m%d" % i
        mods.append(m)
    v["id"] = "vec"
    order = draw(st.permutations(list(range(L))))
    return {"enzyme": ename, "vector": v, "modules": mods, "order": list(order)}


def build_assembly(spec, fresh_classes=False):
    """-> (enzyme, g, Built vector, [Built modules in chain order], M, V)"""
    e = dna.enzyme_by_name(spec["enzyme"])
    g = dna.geometry(e)
    bv = build_vector(g, spec["vector"])
    bms = [build_module(g, m, "m%d" % i) for i, m in enumerate(spec["modules"])]
    M, V = generic_classes(e, fresh=fresh_classes)
    return e, g, bv, bms, M, V
