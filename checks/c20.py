# coding: utf-8
"""C20 -- registries are coherent read-only mappings of uniquely identified plasmids."""
import io
import sys
import warnings

from hypothesis import strategies as st

from vlib import dna, gen, kits, plasmid, registries
from vlib.runner import Violation, run_body, sut

ID = "C20"
LEVEL = "exploration"
TECHNIQUE = ("exhaustive enumeration of the five embedded registries + model-based "
             "property testing (Hypothesis) of FilesystemRegistry over generated "
             "in-memory directories and of CombinedRegistry over generated combination "
             "sequences, against dict models")
RULE = ("(a) exhaustive: YTK, PTK, CIDAR, EcoFlex, Plant registries, every item: "
        "iteration without duplicates, len = number of keys, every key looks up and is "
        "'in', item.id == key == item.entity.record.id, record is a CircularRecord, "
        "resistance is one of the four known antibiotics and is backed by a feature "
        "label of the record (own label table), near-miss keys raise KeyError and are "
        "not 'in'. (b) FilesystemRegistry over a MemoryFS built from a drawn listing: "
        "GenBank files of generated typed plasmids with distinct stems (some with "
        "dots) under supported (gb, gbk or a custom tuple) and unsupported extensions, "
        "sub-directories (also named like 'x.gb') containing files, junk files; model "
        "= {stem: plasmid} for supported extensions at top level. (c) CombinedRegistry "
        "built by a drawn sequence of << / add_registry over filesystem members "
        "(overlapping stems carry different sequences), the embedded PTK registry and "
        "nested combined registries, with repeats; model = dict with setdefault "
        "(first wins, checked by sequence content); afterwards every member, nested "
        "combinations included, must still be the mapping it was. Non-trivial = embedded item, a "
        "directory with an ignored entry, or a combination with an overlapping id; "
        "distinct = distinct spec.")
ASSUMPTIONS = [
    "file stems are distinct within a directory (the statement's quantifier)",
    "MemoryFS (PyFilesystem2) stands for 'a directory'; it is case-sensitive",
    "FilesystemRegistry bases are part base classes (the only ones providing characterize)",
    "iteration order is not compared (sets + duplicate check)",
]
EXHAUSTIVE_NOTE = "all items of the five embedded registries (362 plasmids)"
LEVEL_TEXT = ("Exhaustive over the embedded registries; exploration (model-based) over "
              "generated directories and combination sequences.")
LEVEL_NOTE = "Trusted: PyFilesystem MemoryFS, Bio.SeqIO GenBank writer (fixture side)."
WALL_CAP = {"quick": 260, "thorough": 3000}

ANTIBIOTICS = {"Kanamycin", "Chloramphenicol", "Ampicillin", "Spectinomycin"}
LABELS = {"KanR": "Kanamycin", "KnR": "Kanamycin", "CamR": "Chloramphenicol", "CmR": "Chloramphenicol",
          "AmpR": "Ampicillin", "SmR": "Spectinomycin", "SpecR": "Spectinomycin"}


def check_mapping(reg, model, what, content=None, also_absent=()):
    """reg must behave as the read-only mapping ``model`` {key: expected sequence or None}."""
    from moclo.record import CircularRecord
    keys = sut(lambda: list(iter(reg)))
    if len(keys) != len(set(keys)):
        dup = sorted(k for k in set(keys) if keys.count(k) > 1)
        raise Violation("ITER-DUPLICATES", "%s: iteration yields %r more than once" % (what, dup[:5]))
    if set(keys) != set(model):
        raise Violation("ITER-KEYS", "%s: iteration yields %r, expected %r (missing %r, extra %r)" % (
            what, sorted(keys)[:8], sorted(model)[:8], sorted(set(model) - set(keys))[:5],
            sorted(set(keys) - set(model))[:5]))
    n = sut(lambda: len(reg))
    if n != len(model):
        raise Violation("LEN", "%s: len() = %r, %d keys" % (what, n, len(model)))
    for key in keys:
        try:
            item = reg[key]
        except KeyError:
            raise Violation("LOOKUP", "%s: iterated key %r cannot be looked up" % (what, key))
        except Exception as e:  # noqa
            from vlib.runner import innermost_moclo_frame
            raise Violation("EXC:%s@%s" % (type(e).__name__, innermost_moclo_frame(e)),
                            "%s: lookup of %r raised %s: %s" % (what, key, type(e).__name__, e))
        if not sut(lambda: key in reg):
            raise Violation("CONTAINS", "%s: %r is iterated but not 'in' the registry" % (what, key))
        if item.id != key or item.entity.record.id != key:
            raise Violation("ID", "%s: item under key %r has id %r and record id %r" % (
                what, key, item.id, item.entity.record.id))
        if not isinstance(item.entity.record, CircularRecord):
            raise Violation("RECORD", "%s: %r does not hold a circular record" % (what, key))
        # compared by equality, not by hash: the value may be a str subclass
        if not any(item.resistance == x for x in ANTIBIOTICS):
            raise Violation("RESISTANCE", "%s: %r has resistance %r" % (what, key, item.resistance))
        labels = set(l for f in item.record.features for l in f.qualifiers.get("label", []))
        if not any(item.resistance == LABELS[l] for l in labels if l in LABELS):
            raise Violation("RESISTANCE", "%s: %r resistance %r is not backed by a feature label (%r)"
                            % (what, key, item.resistance, sorted(labels & set(LABELS))))
        if model[key] is not None and str(item.record.seq).upper() != model[key].upper():
            raise Violation("CONTENT", "%s: %r holds another plasmid than expected (first member must win)"
                            % (what, key))
    for miss in also_absent:
        if miss in model:
            continue
        try:
            found = reg[miss]
        except KeyError:
            found = None
        except Exception as e:  # noqa
            raise Violation("ABSENT-KEY", "%s: lookup of absent key %r raised %s" % (what, miss, type(e).__name__))
        if found is not None or sut(lambda: miss in reg):
            raise Violation("ABSENT-KEY:path", "%s: %r is not one of the keys %r, yet it is %s"
                            % (what, miss, sorted(model)[:6],
                               "found (item id %r)" % found.id if found is not None else "'in' the registry"))
    for key in keys[:40]:
        for miss in (key + "x", key[:-1], key.lower() if key.lower() != key else key.upper(), "", key + ".gb"):
            if miss in model:
                continue
            try:
                reg[miss]
            except KeyError:
                pass
            except Exception as e:  # noqa
                raise Violation("ABSENT-KEY", "%s: lookup of absent key %r raised %s" % (what, miss, type(e).__name__))
            else:
                raise Violation("ABSENT-KEY", "%s: absent key %r was found" % (what, miss))
            if sut(lambda: miss in reg):
                raise Violation("ABSENT-KEY", "%s: absent key %r is 'in' the registry" % (what, miss))


# --------------------------------------------------------------------------
# filesystem fixtures

SIGS = {"ytk": [("CCCT", "AACG"), ("AACG", "TATG"), ("TATG", "ATCC"), ("ATCC", "GCTG")],
        "cidar": [("GGAG", "TACT"), ("TACT", "AATG"), ("AATG", "AGGT"), ("AGGT", "GCTT")],
        "ecoflex": [("CTAT", "GTAC"), ("GTAC", "CATA"), ("CATA", "TCGA"), ("TCGA", "TGTT")],
        "moclo": [("GGAG", "TACT"), ("TACT", "AATG"), ("AATG", "GCTT"), ("GCTT", "CGCT")]}
BASES = {"ytk": "YTKPart", "cidar": "CIDARPart", "ecoflex": "EcoFlexPart", "moclo": "MoCloPart"}


def _base(kit):
    import importlib
    return getattr(importlib.import_module("moclo.kits." + kit), BASES[kit])


def plasmid_text(kit, p):
    """GenBank text + sequence of a generated typed plasmid."""
    from Bio import SeqIO
    from Bio.Seq import Seq
    from Bio.SeqFeature import FeatureLocation, SeqFeature
    from Bio.SeqRecord import SeqRecord
    from Bio.Restriction import BsaI
    g = dna.geometry(BsaI)
    sig = SIGS[kit][p["sig"] % 4]
    b = plasmid.build_module(g, {"o5": sig[0], "o3": sig[1], "t": p["t"], "b": p["b"] or "AC",
                                 "x": "A", "y": "T", "rot": p.get("rot", 0)})
    n = len(b.seq)
    # the resistance feature may carry several labels, the marker name not first
    labels = {0: [p["marker"]], 1: ["bla", p["marker"]], 2: [p["marker"], "resistance"],
              3: ["marker", "orf", p["marker"]]}[p.get("labels", 0) % 4]
    feats = [SeqFeature(FeatureLocation(0, min(n, 5), 1), type="CDS",
                        qualifiers={"label": labels})]
    if p.get("extra"):
        feats.append(SeqFeature(FeatureLocation(0, 1, 1), type="misc_feature", qualifiers={"label": ["other"]}))
    r = SeqRecord(Seq(b.seq), id="inner_id", name="plasmid", description=p.get("desc", "a generated part"),
                  features=feats, annotations={"molecule_type": "DNA", "topology": "circular"})
    buf = io.StringIO()
    with warnings.catch_warnings():
        warnings.simplefilter("ignore")
        SeqIO.write(r, buf, "genbank")
    return buf.getvalue(), b.seq


def split_name(name):
    """(stem, extension) of a file name: split at the last dot; a leading dot
    alone does not start an extension."""
    if "." in name[1:]:
        stem, ext = name.rsplit(".", 1)
        return stem, ext
    return name, ""


def make_fs(kit, listing, exts):
    """-> (MemoryFS, model {key: sequence}, number of ignored entries).

    The model is derived from the actual file names; a file whose key would
    repeat an earlier file's key is not written (the statement's quantifier
    has distinct stems)."""
    import fs.memoryfs
    mem = fs.memoryfs.MemoryFS()
    model = {}
    ignored = 0
    taken = set()
    for ent in listing:
        if ent["kind"] == "file":
            name = ent["stem"] + ("." + ent["ext"] if ent["ext"] else "")
            stem, ext = split_name(name)
            if name in taken or (ext in exts and stem in model):
                continue
            taken.add(name)
            text, seq = plasmid_text(kit, ent["plasmid"])
            mem.writetext(name, text)
            if ext in exts:
                model[stem] = seq
            else:
                ignored += 1
        elif ent["kind"] == "dir":
            if ent["name"] in taken:
                continue
            taken.add(ent["name"])
            mem.makedir(ent["name"])
            text, seq = plasmid_text(kit, ent["plasmid"])
            mem.writetext(ent["name"] + "/" + ent["inner"], text)
            ignored += 1
        else:
            if ent["name"] in taken or split_name(ent["name"])[1] in exts:
                continue
            taken.add(ent["name"])
            mem.writetext(ent["name"], ent.get("text", "not a genbank file"))
            ignored += 1
    return mem, model, ignored


def fs_registry(kit, member):
    from moclo.registry.base import FilesystemRegistry
    exts = tuple(member.get("extensions") or ("gb", "gbk"))
    mem, model, ignored = make_fs(kit, member["listing"], exts)
    if member.get("extensions"):
        reg = FilesystemRegistry(mem, _base(kit), extensions=exts)
    else:
        reg = FilesystemRegistry(mem, _base(kit))
    return reg, model, ignored


def check(spec, ctx):
    if spec["kind"] == "embedded":
        reg = registries.registry(spec["reg"])
        keys = list(reg)
        check_mapping(reg, {k: None for k in keys}, "embedded %s" % spec["reg"])
        for k in keys:
            ctx.nontrivial.add(hash((spec["reg"], k)) & 0xFFFFFFFFFFFFFFFF)
        ctx.event("embedded-items", len(keys))
        ctx.note(spec, True, ["embedded:" + spec["reg"]])
        return
    kit = spec["kit"]
    if spec["kind"] == "fs":
        reg, model, ignored = sut(fs_registry, kit, spec["member"])
        # files inside sub-directories are ignored, and keys are stems, not paths
        paths = []
        for e in spec["member"]["listing"]:
            if e["kind"] == "dir":
                paths.append(e["name"] + "/" + split_name(e["inner"])[0])
        for k in sorted(model)[:3]:
            paths += ["/" + k, "./" + k]
            for e in spec["member"]["listing"]:
                if e["kind"] == "dir":
                    paths.append(e["name"] + "/../" + k)
        check_mapping(reg, model, "filesystem registry %r" % [
            (e.get("stem") or e.get("name"), e.get("ext")) for e in spec["member"]["listing"]],
            also_absent=paths)
        ctx.note(spec, ignored > 0, ["fs", "files:%d" % min(len(model), 6), "ignored:%d" % min(ignored, 6)])
        return
    # combined
    from moclo.registry.base import CombinedRegistry

    members = []

    def build(node):
        """-> (registry, ordered model)"""
        if node["kind"] == "fs":
            reg, model, _ = fs_registry(kit, node)
            ordered = {}
            for k in list(reg):
                ordered[k] = model.get(k)
            members.append((reg, dict(ordered), "filesystem member"))
            return reg, ordered
        if node["kind"] == "embedded":
            reg = registries.registry_class(node["reg"])()
            model = {k: str(reg[k].record.seq) for k in reg}
            members.append((reg, dict(model), "embedded member %s" % node["reg"]))
            return reg, model
        comb = CombinedRegistry()
        model = {}
        for child, op in node["members"]:
            r, m = build(child)
            if op == "lshift":
                res = comb << r
                if res is not comb:
                    raise Violation("LSHIFT", "<< does not return the combined registry")
            else:
                comb.add_registry(r)
            for k, v in m.items():
                model.setdefault(k, v)
        members.append((comb, dict(model), "nested combined member"))
        return comb, model
    comb, model = sut(build, spec["tree"])
    members.pop()
    check_mapping(comb, model, "combined registry")
    # combining reads its members, it does not change them
    for reg, m, what in members:
        check_mapping(reg, m, what + " after being combined")
    # overlap?
    seen, overlap = set(), False

    def walk(node):
        nonlocal overlap
        if node["kind"] == "fs":
            for e in node["listing"]:
                if e["kind"] == "file":
                    if e["stem"] in seen:
                        overlap = True
                    seen.add(e["stem"])
        elif node["kind"] == "combined":
            for c, op in node["members"]:
                walk(c)
    walk(spec["tree"])
    ctx.note(spec, overlap, ["combined", "keys:%d" % min(len(model), 30)] + (["overlap"] if overlap else []))


# --------------------------------------------------------------------------

def exhaustive_tasks(tier):
    return list(registries.NAMES)


def run_exhaustive(reg, ctx):
    run_body(sys.modules[__name__], {"kind": "embedded", "reg": reg}, ctx)


_STEMS = ["pA", "pB", "pC", "p.1", "p.2", "part_x", "a.b.c", "Z", "pa", "x.gb", "dvk", "pYTK999"]
_EXT_OK = ["gb", "gbk"]
_EXT_BAD = ["genbank", "GB", "txt", "fa", "", "gb~", "gbk2"]


@st.composite
def _plasmid(draw):
    return {"sig": draw(st.integers(0, 3)), "t": draw(gen.dna_text(2, 20)), "b": draw(gen.dna_text(2, 20)),
            "rot": draw(st.integers(0, 60)), "marker": draw(st.sampled_from(sorted(LABELS))),
            "extra": draw(st.booleans()), "labels": draw(st.integers(0, 3))}


@st.composite
def _listing(draw, custom=None):
    stems = draw(st.lists(st.sampled_from(_STEMS), min_size=0, max_size=6, unique=True))
    ok = list(custom) if custom else _EXT_OK
    listing = []
    for s in stems:
        ext = draw(st.sampled_from(ok + ok + _EXT_BAD + (["gb", "gbk"] if custom else [])))
        listing.append({"kind": "file", "stem": s, "ext": ext, "plasmid": draw(_plasmid())})
    for i in range(draw(st.integers(0, 2))):
        listing.append({"kind": "dir", "name": draw(st.sampled_from(["sub", "d.gb", "inner.gbk", "q"])) + str(i),
                        "inner": "hidden.gb", "plasmid": draw(_plasmid())})
    if draw(st.booleans()):
        # non-GenBank files never carry an extension declared as GenBank
        junk = [n for n in ["README", "notes.txt", "x.fasta", ".gbx", "data.csv"]
                if n.rsplit(".", 1)[-1] not in ok]
        listing.append({"kind": "junk", "name": draw(st.sampled_from(junk))})
    names = set()
    out = []
    for e in listing:
        nm = (e["stem"] + "." + e["ext"] if e["kind"] == "file" else e["name"])
        if nm in names:
            continue
        names.add(nm)
        out.append(e)
    return out


@st.composite
def _fs_member(draw):
    custom = draw(st.sampled_from([None, None, ["gb"], ["genbank", "txt"], ["gbk", "fa"]]))
    m = {"kind": "fs", "listing": draw(_listing(custom))}
    if custom:
        m["extensions"] = custom
    return m


@st.composite
def _fs_specs(draw):
    return {"kind": "fs", "kit": draw(st.sampled_from(sorted(BASES))), "member": draw(_fs_member())}


@st.composite
def _tree(draw, depth=0):
    members = []
    for _ in range(draw(st.integers(1, 4))):
        c = draw(st.integers(0, 9))
        if c <= 5 or depth >= 2:
            node = draw(_fs_member())
        elif c == 6:
            node = {"kind": "embedded", "reg": "ptk"}
        else:
            node = draw(_tree(depth + 1))
        members.append([node, draw(st.sampled_from(["lshift", "add"]))])
        if draw(st.integers(0, 4)) == 0:
            members.append([node, "add"])      # repeated member
    return {"kind": "combined", "members": members}


@st.composite
def _comb_specs(draw):
    return {"kind": "combined", "kit": "ytk", "tree": draw(_tree())}


def strategies(tier):
    q = tier == "quick"
    return {"fs": (_fs_specs(), 120 if q else 3000), "combined": (_comb_specs(), 60 if q else 1500)}
