# coding: utf-8
"""C17 -- validation is total and failures are always reported as MoClo errors."""
import warnings

import hypothesis
from hypothesis import strategies as st

from vlib import dna, gen, kits, plasmid
from vlib.runner import Reject, Violation, innermost_moclo_frame

ID = "C17"
LEVEL = "exploration"
TECHNIQUE = ("fuzzing-style property-based testing (Hypothesis): arbitrary IUPAC "
             "strings, structure instances with ambiguity letters, single-letter "
             "corruptions, truncations and cross-class instances against every kit and "
             "generic class; validity predicate on results and exception types")
RULE = ("class drawn from the 85 concrete kit classes and generic module/vector classes "
        "over the 58 enzymes; record = (i) random string over the 15 IUPAC letters in "
        "both cases, length 1-80, (ii) instance of the class's structure with wildcard "
        "letters optionally replaced by N/n or lower case, (iii) such an instance with "
        "one letter substituted / deleted / inserted at a drawn position, (iv) "
        "truncation below the structure length, (v) instance of another class, (vi) "
        "instance with one extra recognition site of the cutter inserted; all "
        "rotated. Assemblies: a vector class with 1-4 modules, each participant "
        "independently valid / corrupted / random / of another kit / with an extra "
        "site, record ids drawn from a pool with braces, percent signs, spaces, "
        "quotes, non-ASCII letters and the empty id. Also complete generated chains "
        "over all enzymes with an optional leftover module, ids from the same pool "
        "and up to four letters replaced by N/n. Oracle: is_valid() "
        "returns exactly True or False and never raises; when False, overhang_start, "
        "overhang_end, target_sequence (vectors: placeholder_sequence) each raise "
        "errors.InvalidSequence; assemble returns a CircularRecord or raises a "
        "MocloError subclass. Any other exception is a violation tagged with its "
        "innermost moclo frame. Non-trivial = record within one edit of an accepted "
        "instance, or an assembly with >= 1 invalid participant; distinct = distinct spec.")
ASSUMPTIONS = [
    "records have length >= 1 and letters from the 15 IUPAC codes in either case",
    "warnings are not failures",
]
LEVEL_TEXT = ("Exploration (fuzzing): tens of thousands of arbitrary and near-valid records "
              "per run across all 201 classes; the oracle is a validity predicate on "
              "return values and exception classes.")
LEVEL_NOTE = "Trusted: the error taxonomy in moclo.errors defines 'documented MoClo exception' (MocloError subclasses)."
WALL_CAP = {"quick": 240, "thorough": 3000}


ODD_IDS = ["x", "pJ{23100}", "lib{a}", "clone{", "}{", "{0}", "100%", "%s", "a b", "p\\1", "<unknown id>", "",
           "id'with\"quotes", "\u00e9t\u00e9"]


def _entity(cname, word, rid="x"):
    from Bio.Seq import Seq
    from moclo.record import CircularRecord
    cls = kits.resolve_class(cname)
    return cls, cls(CircularRecord(Seq(word), id=rid, name=rid))


def _violation(what, e):
    return Violation("EXC:%s@%s" % (type(e).__name__, innermost_moclo_frame(e)),
                     "%s raised %s: %s" % (what, type(e).__name__, str(e)[:200]))


def typing(cname, word):
    """-> True/False; raises Violation."""
    from moclo import errors
    cls, ent = _entity(cname, word)
    try:
        ok = ent.is_valid()
    except Exception as e:  # noqa
        raise _violation("%s(%r).is_valid()" % (cls.__name__, word), e)
    if ok is not True and ok is not False:
        raise Violation("NOT-BOOL", "%s(%r).is_valid() returned %r" % (cls.__name__, word, ok))
    if not ok:
        names = ["overhang_start", "overhang_end", "target_sequence"]
        if kits.role_of(cls) == "vector":
            names.append("placeholder_sequence")
        for name in names:
            try:
                res = getattr(ent, name)()
            except errors.InvalidSequence:
                continue
            except Exception as e:  # noqa
                raise _violation("%s(%r).%s() on an invalid record" % (cls.__name__, word, name), e)
            raise Violation("NO-ERROR:" + name, "%s(%r) is not valid but %s() returned %r"
                            % (cls.__name__, word, name, str(getattr(res, "seq", res))[:60]))
    return ok


def check_chain(spec, ctx):
    """A complete generated chain (plus an optional leftover module), record ids
    from the odd pool, some letters replaced by N/n: product or MoClo error."""
    from Bio.Seq import Seq
    from moclo import errors
    from moclo.record import CircularRecord
    a = spec["assembly"]
    e, g, bv, bms, M, V = plasmid.build_assembly(a, fresh_classes=True)
    builts = [bv] + bms
    if spec.get("leftover"):
        builts.append(plasmid.build_module(g, dict(spec["leftover"], id="leftover")))
    ids = spec.get("ids") or ["x"]
    seqs = []
    for i, b in enumerate(builts):
        s = list(b.seq)
        for (who, pos, ch) in spec.get("subst") or []:
            if who % len(builts) == i:
                s[pos % len(s)] = ch
        seqs.append("".join(s))
    recs = [CircularRecord(Seq(s), id=ids[i % len(ids)], name="n") for i, s in enumerate(seqs)]
    vent = V(recs[0])
    ments = [M(r) for r in recs[1:]]
    order = list(a["order"]) + list(range(len(bms), len(ments)))
    with warnings.catch_warnings(record=True):
        warnings.simplefilter("always")
        try:
            res = vent.assemble(*[ments[i] for i in order])
            out = "product"
            if not isinstance(res, CircularRecord):
                raise Violation("ASSEMBLE-RESULT", "assemble returned %s" % type(res).__name__)
        except errors.MocloError as ex:
            out = type(ex).__name__
        except Violation:
            raise
        except Exception as ex:  # noqa
            raise _violation("assemble of a generated chain (ids %r, substitutions %r)"
                             % (ids, spec.get("subst")), ex)
    ctx.note(spec, bool(spec.get("subst")) or ids != ["x"],
             ["chain:" + out] + (["chain:with-leftover"] if spec.get("leftover") else []))


def check(spec, ctx):
    from moclo import errors
    from moclo.record import CircularRecord
    if spec["kind"] == "typing":
        ok = typing(spec["cls"], spec["word"])
        ctx.note(spec, spec.get("style") in ("corrupt", "instance-N", "other-class", "extra-site"),
                 ["style:" + spec.get("style", "?"), "valid" if ok else "invalid"])
        return
    ids = spec.get("ids") or ["x"]
    if spec["kind"] == "chain":
        return check_chain(spec, ctx)
    vcls, vent = _entity(spec["vector"][0], spec["vector"][1], ids[0])
    ments = [_entity(c, w, ids[(i + 1) % len(ids)])[1] for i, (c, w) in enumerate(spec["modules"])]
    flags = []
    for ent in [vent] + ments:
        try:
            flags.append(bool(ent.is_valid()))
        except Exception as e:  # noqa
            raise _violation("is_valid()", e)
    with warnings.catch_warnings(record=True):
        warnings.simplefilter("always")       # the warning message is rendered inside assemble
        try:
            res = vent.assemble(*ments)
            out = "product"
            if not isinstance(res, CircularRecord):
                raise Violation("ASSEMBLE-RESULT", "assemble returned %s" % type(res).__name__)
        except errors.MocloError as e:
            out = type(e).__name__
        except Violation:
            raise
        except Exception as e:  # noqa
            raise _violation("assemble with validity flags %r" % flags, e)
    ctx.note(spec, not all(flags), ["assembly:" + out, "invalid-participants:%d" % flags.count(False)])


# --------------------------------------------------------------------------

_IUPAC_BOTH = "ACGTRYSWKMBDHVN" + "acgtryswkmbdhvn"


def _class_names():
    return kits.all_class_names()


@st.composite
def _word_for(draw, cname, styles=("random", "instance", "instance-N", "corrupt", "truncate",
                                   "other-class", "extra-site")):
    style = draw(st.sampled_from(styles))
    if style == "random":
        alpha = draw(st.sampled_from([_IUPAC_BOTH, "ACGT", "ACGTN", "acgt"]))
        return style, draw(st.text(alphabet=alpha, min_size=1, max_size=80))
    src = cname
    if style == "other-class":
        src = draw(st.sampled_from(kits.kit_class_names()))
    ispec = draw(kits.instance_spec(src, max_star=20, max_b=25))
    try:
        cls, word, word0, groups = kits.build_instance(ispec)
    except Reject:
        hypothesis.reject()
    if style == "instance-N":
        chars = list(word)
        for i in draw(st.lists(st.integers(0, len(word) - 1), min_size=1, max_size=6)):
            chars[i] = draw(st.sampled_from("NnRYacgt"))
        word = "".join(chars)
    elif style == "corrupt":
        i = draw(st.integers(0, len(word) - 1))
        op = draw(st.integers(0, 2))
        if op == 0:
            word = word[:i] + draw(st.sampled_from(_IUPAC_BOTH)) + word[i + 1:]
        elif op == 1 and len(word) > 1:
            word = word[:i] + word[i + 1:]
        else:
            word = word[:i] + draw(st.sampled_from("ACGT")) + word[i:]
    elif style == "truncate":
        word = word[:draw(st.integers(1, max(1, len(word) - 1)))]
    elif style == "extra-site":
        g = kits.cutter_geometry(kits.resolve_class(src))
        i = draw(st.integers(0, len(word)))
        word = word[:i] + (g.site if draw(st.booleans()) else g.rsite) + word[i:]
    return style, word


@st.composite
def _typing_specs(draw, names):
    cname = draw(st.sampled_from(names))
    style, word = draw(_word_for(cname))
    return {"kind": "typing", "cls": cname, "word": word, "style": style}


@st.composite
def _assembly_specs(draw):
    kit = draw(st.sampled_from(["ytk", "cidar", "ecoflex", "moclo", None]))
    names = kits.kit_class_names()
    pool = [n for n in names if kit is None or n.startswith(kit)]
    vnames = [n for n in pool if kits.role_of(kits.resolve_class(n)) == "vector"]
    mnames = [n for n in pool if kits.role_of(kits.resolve_class(n)) == "module"]
    if kit is None:
        e = draw(plasmid.enzyme_strategy())
        vnames, mnames = ["gen:V:" + e], ["gen:M:" + e]
    vn = draw(st.sampled_from(vnames))
    part_styles = ("instance", "instance", "instance", "corrupt", "random", "other-class", "instance-N",
                   "extra-site")
    vec = [vn, draw(_word_for(vn, part_styles))[1]]
    mods = []
    for _ in range(draw(st.integers(1, 4))):
        mn = draw(st.sampled_from(mnames if draw(st.integers(0, 5)) else
                                  [n for n in names if kits.role_of(kits.resolve_class(n)) == "module"]))
        mods.append([mn, draw(_word_for(mn, part_styles))[1]])
    spec = {"kind": "assembly", "vector": vec, "modules": mods}
    if draw(st.booleans()):
        spec["ids"] = draw(st.lists(st.sampled_from(ODD_IDS), min_size=1, max_size=5))
    return spec


@st.composite
def _chain_specs(draw):
    a = draw(plasmid.assembly_spec(max_chain=4, max_seg=20))
    g = dna.geometry(dna.enzyme_by_name(a["enzyme"]))
    spec = {"kind": "chain", "assembly": a,
            "ids": draw(st.lists(st.sampled_from(ODD_IDS), min_size=1, max_size=6))}
    if draw(st.integers(0, 2)):
        lo = draw(plasmid.module_body(g, 12))
        lo["o5"], lo["o3"] = draw(gen.dna_text(g.k, g.k)), draw(gen.dna_text(g.k, g.k))
        spec["leftover"] = lo
    if draw(st.booleans()):
        spec["subst"] = draw(st.lists(st.tuples(st.integers(0, 5), st.integers(0, 300),
                                                st.sampled_from("NNNn")), min_size=1, max_size=4))
        spec["subst"] = [list(x) for x in spec["subst"]]
    return spec


def strategies(tier):
    kit = kits.kit_class_names()
    gen_names = [n for n in _class_names() if n.startswith("gen:")]
    q = tier == "quick"
    return {"kit": (_typing_specs(kit), 1200 if q else 40000),
            "generic": (_typing_specs(gen_names), 800 if q else 25000),
            "assembly": (_assembly_specs(), 300 if q else 8000),
            "chain": (_chain_specs(), 300 if q else 8000)}
