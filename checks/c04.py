# coding: utf-8
"""C04 -- reported overhangs and fragments are true restriction fragments."""
from hypothesis import strategies as st

from vlib import dna, kits
from vlib.runner import Violation, sut

ID = "C04"
LEVEL = "exploration"
TECHNIQUE = ("property-based testing (Hypothesis) over instances of all 85 kit "
             "structures and generic classes of all 58 enzymes, against cut "
             "positions computed by plain circular string search")
RULE = ("class drawn uniformly from the 85 concrete kit classes + generic module/"
        "vector classes over the 58 enzymes; record = generated instance of the "
        "class's structure + backbone, stray cutter sites repaired, then 0-2 "
        "mutations (letter substitution incl. IUPAC/lower case, inserted extra "
        "site, appended sequence, deletion, truncation), drawn rotation. Only "
        "accepted records are judged. Oracle: cut events of the declared cutter by "
        "string search from (site, offset, overhang length); there must be events "
        "a1, a2 with overhang_start = seq[a1,+k), overhang_end = seq[a2,+k), target "
        "= circular stretch [a1,a2); modules (except YTKPart234r): no event strictly "
        "inside; vectors: placeholder = stretch [a2,a1), contiguous, |placeholder|+"
        "|target| = n. Non-trivial = accepted record that is mutated or whose match "
        "wraps the origin; distinct = distinct spec.")
ASSUMPTIONS = [
    "enzyme geometry from Biopython's numeric attributes (site, fst5, ovhg)",
    "records the class rejects are not judged here (C17 covers them)",
]
LEVEL_TEXT = ("Exploration: thousands of accepted records per run spread over all "
              "201 classes, each judged against independently computed cut events; "
              "per-class accepted counts are reported in the evidence histogram.")
LEVEL_NOTE = "Trusted: dna.cut_events (plain string search), the pattern-instantiating generator."
WALL_CAP = {"quick": 240, "thorough": 3000}


def judge(cls, word, what=""):
    """Judge an accepted entity on the circular word. Raises Violation."""
    from Bio.Seq import Seq
    from moclo.record import CircularRecord
    ent = cls(CircularRecord(Seq(word), id="x"))
    first = sut(ent.is_valid)
    if not first and not sut(ent.is_valid):
        return None           # rejected, also when asked again on the same wrapper
    g = dna.geometry(cls.cutter)
    n = len(word)
    os_ = str(sut(ent.overhang_start))
    oe = str(sut(ent.overhang_end))
    target = str(sut(ent.target_sequence).seq)
    role = kits.role_of(cls)
    events = [a for a, s in dna.cut_events(word, g)]
    up = word.upper()
    name = cls.__name__

    def ov(a):
        return dna.circ_slice(up, a, g.k)

    if len(os_) != g.k or len(oe) != g.k:
        raise Violation("OVERHANG-LENGTH", "%s on %r: overhangs %r/%r, cutter leaves %d nt" % (name, word, os_, oe, g.k))
    c1 = [a for a in events if ov(a) == os_.upper()]
    c2 = [a for a in events if ov(a) == oe.upper()]
    if not c1:
        raise Violation("OVERHANG-START", "%s on %r: overhang_start %r is not a single-stranded end of "
                        "%s (cut events at %r)" % (name, word, os_, g.name, events))
    if not c2:
        raise Violation("OVERHANG-END", "%s on %r: overhang_end %r is not a single-stranded end of "
                        "%s (cut events at %r)" % (name, word, oe, g.name, events))
    placeholder = None
    if role == "vector":
        placeholder = str(sut(ent.placeholder_sequence).seq)
    problems = []
    for a1 in c1:
        for a2 in c2:
            ln = (a2 - a1) % n
            if a1 == a2:
                continue
            if dna.circ_slice(up, a1, ln) != target.upper():
                problems.append("TARGET")
                continue
            if role == "module" and name != "YTKPart234r":
                inside = [e for e in events if 0 < (e - a1) % n < ln]
                if inside:
                    problems.append("CUT-INSIDE-TARGET")
                    continue
            if role == "vector":
                pl = (a1 - a2) % n
                if len(placeholder) + len(target) != n:
                    problems.append("PLACEHOLDER-COVER")
                    continue
                if dna.circ_slice(up, a2, pl) != placeholder.upper():
                    problems.append("PLACEHOLDER")
                    continue
            return ent
    tag = sorted(set(problems))[-1] if problems else "TARGET"
    raise Violation(tag, "%s on %r (n=%d): overhangs %r/%r at events %r/%r, target %r%s: no pair of "
                    "cut events explains them (%s)" % (
                        name, word, n, os_, oe, c1, c2, target,
                        ", placeholder %r" % placeholder if placeholder is not None else "",
                        ",".join(sorted(set(problems)))))


def check(spec, ctx):
    cls, word, word0, groups = kits.build_instance(spec)
    ent = judge(cls, word)
    if ent is None:
        ctx.note(spec, False, ["rejected-by-class"])
        return
    n = len(word)
    ref = dna.ref_search(cls.structure(), word, True)      # oracle side, public API only
    wrapped = ref is not None and ref.end > n
    mutated = bool(spec.get("muts")) or bool(spec.get("case"))
    classes = ["accepted:" + spec["cls"].split(":")[0].split(".")[0], "acc:" + spec["cls"]]
    if wrapped:
        classes.append("wrapped-match")
    if mutated:
        classes.append("mutated-accepted")
    ctx.note(spec, wrapped or mutated, classes)


def _specs(names):
    return st.sampled_from(names).flatmap(
        lambda nm: st.integers(0, 3).flatmap(
            lambda k: kits.instance_spec(nm, n_mut=(0, 0) if k < 2 else (1, 2), with_case=True,
                                         min_b=2)))


def strategies(tier):
    kit = kits.kit_class_names()
    gen_names = [n for n in kits.all_class_names() if n.startswith("gen:")]
    if tier == "quick":
        return {"kit": (_specs(kit), 1500), "generic": (_specs(gen_names), 1800)}
    return {"kit": (_specs(kit), 20000), "generic": (_specs(gen_names), 12000)}


def extra_evidence(merged):
    hist = merged["hist"]
    per = {k[4:]: v for k, v in hist.items() if k.startswith("acc:")}
    names = kits.all_class_names()
    thin = sorted(n for n in names if per.get(n, 0) < 50)
    for k in [k for k in hist if k.startswith("acc:")]:
        del hist[k]
    return {"classes_with_accepted_cases": len(per), "classes_total": len(names),
            "min_accepted_per_class": min([per.get(n, 0) for n in names] or [0]),
            "vacuous_classes": thin}
