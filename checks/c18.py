# coding: utf-8
"""C18 -- letter case of the input sequences never changes the outcome."""
import warnings

from hypothesis import strategies as st

from vlib import dna, gen, kits, plasmid
from vlib.runner import Violation, innermost_moclo_frame, sut
from checks import c03

ID = "C18"
LEVEL = "exploration"
TECHNIQUE = ("property-based metamorphic testing (Hypothesis): every query and "
             "assembly is run on the all-upper-case spelling and on generated "
             "case assignments, outcomes compared case-insensitively")
RULE = ("(t) typing queries: generated instances of the 85 kit classes and of generic "
        "classes over the 58 enzymes, optionally with up to 4 undetermined bases N, "
        "spelled in upper case and in a drawn case assignment: same is_valid, "
        "overhangs, target and placeholder after .upper(); "
        "(a) C01-style complete assemblies over all enzymes and (b) C03-style overhang "
        "graphs (successful, with leftovers, and failing in every way), each record "
        "spelled upper, lower or with a drawn per-letter mask. Oracle: the all-upper "
        "run of the same inputs: same is_valid, overhangs and target equal after "
        ".upper(), product equal after .upper() up to rotation and same unused "
        "modules, or same exception class (MissingModule: same overhang after "
        ".upper()). Non-trivial = at least two participants whose junction overhang "
        "letters differ in case; distinct = distinct spec.")
ASSUMPTIONS = [
    "when DuplicateModules is raised only the class is compared (which colliding pair is named is unspecified)",
    "letters are ACGT (typing queries: ACGTN) in either case",
]
LEVEL_TEXT = ("Exploration: sampled case assignments over sampled assemblies/graphs; the "
              "reference outcome is the implementation's own all-upper run, so this "
              "check decides case-independence only (C01/C03 decide correctness).")
LEVEL_NOTE = "Trusted: str.upper; plasmid builder of C01; graph generator of C03."
WALL_CAP = {"quick": 240, "thorough": 2400}


def _outcome(V, M, bv, bms, order, seqs):
    """Run typing queries and the assembly on the given spellings."""
    from Bio.Seq import Seq
    from moclo import errors
    from moclo.record import CircularRecord
    recs = [CircularRecord(Seq(s), id=b.id, name=b.id) for s, b in zip(seqs, [bv] + bms)]
    ents = [V(recs[0])] + [M(r) for r in recs[1:]]
    typing = []
    for ent in ents:
        ok = ent.is_valid()
        if ok:
            typing.append((True, str(ent.overhang_start()).upper(), str(ent.overhang_end()).upper(),
                           str(ent.target_sequence().seq).upper()))
        else:
            typing.append((False,))
    args = [ents[1 + i] for i in order]
    with warnings.catch_warnings(record=True) as w:
        warnings.simplefilter("always")
        try:
            product = ents[0].assemble(*args)
        except errors.MocloError as e:
            detail = str(e.start_overhang).upper() if isinstance(e, errors.MissingModule) else None
            return typing, ("error", type(e).__name__, detail)
    unused = sorted(r.record.id for x in w if isinstance(x.message, errors.UnusedModules)
                    for r in x.message.remaining)
    return typing, ("product", dna.canon(str(product.seq)), unused)


def _typing(cls, word):
    from Bio.Seq import Seq
    from moclo.record import CircularRecord
    ent = cls(CircularRecord(Seq(word), id="x"))
    if not ent.is_valid():
        return (False,)
    out = [True, str(ent.overhang_start()).upper(), str(ent.overhang_end()).upper(),
           str(ent.target_sequence().seq).upper()]
    if kits.role_of(cls) == "vector":
        out.append(str(ent.placeholder_sequence().seq).upper())
    return tuple(out)


def check_typing(spec, ctx):
    """Kit/generic class instance, optionally with undetermined bases (N),
    spelled in upper case and in a drawn case assignment."""
    cls, word, word0, groups = kits.build_instance(spec["inst"])
    chars = list(word.upper())
    for i in spec.get("npos") or []:
        chars[i % len(chars)] = "N"
    upper = "".join(chars)
    cased = gen.apply_case(upper, spec["cases"][0])
    a = sut(_typing, cls, upper)
    cls2 = kits.resolve_class(spec["inst"]["cls"], fresh=spec["inst"]["cls"].startswith(("gen:", "part:")))
    b = sut(_typing, cls2, cased)
    if a[0] != b[0]:
        raise Violation("TYPING", "%s: %r is_valid=%s but its spelling %r is_valid=%s"
                        % (cls.__name__, upper, a[0], cased, b[0]))
    if a != b:
        raise Violation("TYPING-VALUES", "%s: overhangs/target/placeholder of %r and %r differ beyond case"
                        % (cls.__name__, upper, cased))
    mixed = cased != upper
    ctx.event("typing:" + ("accepted" if a[0] else "rejected"))
    ctx.note(spec, mixed and a[0], ["kind:typing"] + (["with-N"] if "N" in upper else []))


def check(spec, ctx):
    if spec["kind"] == "typing":
        return check_typing(spec, ctx)
    if spec["kind"] == "assembly":
        e, g, bv, bms, M, V = plasmid.build_assembly(spec["assembly"], fresh_classes=True)
        order = spec["assembly"]["order"]
    else:
        gs = spec["graph"]
        e = dna.enzyme_by_name(gs["enzyme"])
        g = dna.geometry(e)
        bv = c03._built_vector(gs["enzyme"], g, gs["vector"][0], gs["vector"][1])
        bms = [c03._built_module(gs["enzyme"], g, i, a, b) for i, (a, b) in enumerate(gs["modules"])]
        M, V = plasmid.generic_classes(e, fresh=True)
        order = gs["orders"][0]
    upper = [b.seq.upper() for b in [bv] + bms]
    cases = spec["cases"]
    cased = [gen.apply_case(s, cases[i % len(cases)]) for i, s in enumerate(upper)]
    base_t, base_o = sut(_outcome, V, M, bv, bms, order, upper)
    M2, V2 = plasmid.generic_classes(e, fresh=True)
    got_t, got_o = sut(_outcome, V2, M2, bv, bms, order, cased)
    for i, (a, b) in enumerate(zip(base_t, got_t)):
        who = "vector" if i == 0 else "module %d" % (i - 1)
        if a[0] != b[0]:
            raise Violation("TYPING", "%s %r: is_valid %s in upper case, %s as %r"
                            % (who, upper[i], a[0], b[0], cased[i]))
        if a != b:
            raise Violation("TYPING-VALUES", "%s: overhangs/target differ beyond case: %r vs %r" % (who, a, b))
    if base_o != got_o:
        raise Violation("ASSEMBLY:" + base_o[0] + "->" + got_o[0],
                        "spellings %r: outcome %r, all-upper-case outcome %r"
                        % (cased, _short(got_o), _short(base_o)))
    # non-trivial: junction overhang letters differ in case between two participants
    def ov_case(i, b):
        a, ln = b.arc
        k = b.g.k
        s = cased[i]
        n = len(s)
        start = dna.circ_slice(s, a, k)
        endpos = (a + ln) % n
        end = dna.circ_slice(s, endpos, k)
        return (start, end)
    ovs = [ov_case(i, b) for i, b in enumerate([bv] + bms)]
    flat = [o for pair in ovs for o in pair]
    differ = len(set(flat)) > len(set(o.upper() for o in flat))
    ctx.event("outcome:" + base_o[0] + (":" + base_o[1] if base_o[0] == "error" else ""))
    ctx.note(spec, differ and len(bms) >= 1, ["kind:" + spec["kind"]])


def _short(o):
    if o[0] == "product":
        return ("product", o[1][:60] + ("..." if len(o[1]) > 60 else ""), o[2])
    return o


@st.composite
def _specs(draw):
    cases = draw(st.lists(gen.case_masks(), min_size=1, max_size=7))
    if draw(st.integers(0, 2)) == 0:
        return {"kind": "assembly", "assembly": draw(plasmid.assembly_spec(max_chain=4, max_seg=25)),
                "cases": cases}
    gs = draw(c03._graph_specs())
    gs["orders"] = gs["orders"][:1]
    return {"kind": "graph", "graph": gs, "cases": cases}


@st.composite
def _typing_specs(draw):
    name = draw(st.sampled_from(kits.all_class_names()))
    # half of the records carry one mutation (substitution, inserted extra
    # site of the cutter, deletion, ...): accepted or not, every spelling of
    # the same letters must get the same answer
    inst = draw(kits.instance_spec(name, max_star=20, max_b=25, min_b=2,
                                   n_mut=(1, 1) if draw(st.booleans()) else (0, 0)))
    spec = {"kind": "typing", "inst": inst, "cases": [draw(gen.case_masks())]}
    if draw(st.booleans()):
        spec["npos"] = draw(st.lists(st.integers(0, 400), min_size=1, max_size=4))
    return spec


def strategies(tier):
    q = tier == "quick"
    return {"case": (_specs(), 500 if q else 8000), "typing": (_typing_specs(), 500 if q else 8000)}
