# coding: utf-8
"""C19 -- parts of the same type are interchangeable."""
import sys
import warnings

from hypothesis import strategies as st

from vlib import dna, kits, plasmid, registries
from vlib.runner import Violation, run_body, sut
from checks import c01

ID = "C19"
LEVEL = "exploration"
TECHNIQUE = ("relational property-based testing (Hypothesis) over pairs of assemblies "
             "that differ in one same-overhang module; enumeration of canonical "
             "assemblies found by search in the overhang graphs of the registries")
RULE = ("(a) C01 assemblies over all enzymes plus, for a drawn chain position, a "
        "replacement module with the same overhangs and a fresh target/backbone of "
        "another length and rotation (a quarter of them spelled in another letter "
        "case); (b) for each bundled registry (YTK, PTK+YTK, "
        "CIDAR, EcoFlex, Plant with a generated GGAG/CGCT BsaI vector) every path of "
        "module types from a vector's downstream to its upstream overhang (up to 6 "
        "type paths x up to 2 vectors, thorough: all), instantiated with the first "
        "module of each type, and for every position every same-overhang sibling in "
        "the registry (quick: 3 drawn per position; thorough: all). Oracle: both "
        "assemblies succeed; cutting each product right after its copy of the "
        "exchanged module's own (overhang + target) leaves byte-identical remainders, "
        "and that segment is the module's own overhang + target. Non-trivial = "
        "replacement of a different length; distinct = distinct (assembly, position, "
        "replacement).")
ASSUMPTIONS = [
    "a module's own segment is what the module itself reports as target_sequence (leading overhang included)",
    "registry modules/vectors are used with the class their registry assigns and only if that class accepts them",
]
EXHAUSTIVE_NOTE = "thorough tier: all sibling replacements at every position of every enumerated registry type path"
LEVEL_TEXT = ("Exploration: sampled generated pairs over all enzymes and an enumeration "
              "of sibling replacements in canonical registry assemblies (complete in the "
              "thorough tier for the enumerated paths).")
LEVEL_NOTE = "Trusted: str.find on the doubled product; registry loaders."
WALL_CAP = {"quick": 280, "thorough": 5400}


def remainder(product, seg):
    """All remainders of the circular product after removing one occurrence of seg."""
    n = len(product)
    P = product.upper()
    seg = seg.upper()
    out = []
    for p in dna.circ_find_all(P, seg):
        out.append(dna.circ_slice(P, (p + len(seg)) % n, n - len(seg)))
    return out


def relate(p1, seg1, p2, seg2, what):
    r1 = remainder(str(p1.seq), seg1)
    r2 = remainder(str(p2.seq), seg2)
    if not r1 or not r2:
        raise Violation("SEGMENT-MISSING", "%s: a product does not contain the exchanged module's "
                        "own overhang+target segment" % what)
    if not set(r1) & set(r2):
        raise Violation("REMAINDER-DIFFERS", "%s: outside the exchanged segment the two products "
                        "differ (lengths %d/%d, remainders %d/%d nt)" % (
                            what, len(p1.seq), len(p2.seq), len(r1[0]), len(r2[0])))
    if len(p1.seq) - len(seg1) != len(p2.seq) - len(seg2):
        raise Violation("REMAINDER-DIFFERS", "%s: remainder lengths differ" % what)


def _assemble(vec, mods):
    with warnings.catch_warnings():
        warnings.simplefilter("ignore")
        return vec.assemble(*mods)


def check(spec, ctx):
    from moclo import errors
    if spec["kind"] == "gen":
        a = spec["assembly"]
        V, M, bv, bms = c01.prepare(a)
        j = spec["pos"] % len(bms)
        g = bv.g
        repl = plasmid.build_module(g, dict(spec["repl"], o5=bms[j].up, o3=bms[j].down, id="repl"))
        vec = V(bv.record())
        mods = [M(b.record()) for b in bms]
        new = M(repl.record())
        p1 = sut(_assemble, vec, [mods[i] for i in a["order"]])
        mods2 = list(mods)
        mods2[j] = new
        try:
            p2 = sut(_assemble, V(bv.record()), [mods2[i] for i in a["order"]], allowed=(errors.MocloError,))
        except errors.MocloError as e:
            raise Violation("REPLACEMENT-FAILS", "replacing module %d by a module with the same "
                            "overhangs fails: %s" % (j, e))
        seg1 = str(mods[j].target_sequence().seq)
        seg2 = str(new.target_sequence().seq)
        relate(p1, seg1, p2, seg2, "%s chain %d position %d" % (a["enzyme"], len(bms), j))
        ctx.note(spec, len(seg1) != len(seg2), ["gen", "chain:%d" % len(bms)])
        return
    # registry
    world = _world(spec["reg"])
    vec = world["vectors"][spec["vector"]]
    mods = [world["modules"][k] for k in spec["path"]]
    j = spec["pos"]
    new = world["modules"][spec["repl"]]
    try:
        p1 = sut(_assemble, vec, mods, allowed=(errors.MocloError,))
    except errors.MocloError as e:
        raise Violation("CANONICAL-FAILS", "canonical %s assembly %s + %r fails: %s: %s"
                        % (spec["reg"], spec["vector"], spec["path"], type(e).__name__, e))
    mods2 = list(mods)
    mods2[j] = new
    try:
        p2 = sut(_assemble, vec, mods2, allowed=(errors.MocloError,))
    except errors.MocloError as e:
        raise Violation("REPLACEMENT-FAILS", "%s: replacing %s by %s (same overhangs) fails: %s: %s"
                        % (spec["reg"], spec["path"][j], spec["repl"], type(e).__name__, e))
    seg1 = str(mods[j].target_sequence().seq)
    seg2 = str(new.target_sequence().seq)
    relate(p1, seg1, p2, seg2, "%s %s->%s" % (spec["reg"], spec["path"][j], spec["repl"]))
    ctx.note(spec, len(seg1) != len(seg2), ["registry:" + spec["reg"], "chain:%d" % len(mods)])


# --------------------------------------------------------------------------
# registry worlds

_WORLD = {}


def _world(reg):
    """{'modules': {id: entity}, 'vectors': {id: entity}} of valid items."""
    if reg in _WORLD:
        return _WORLD[reg]
    mods, vecs = {}, {}
    sources = [reg] if reg != "ptk" else ["ptk", "ytk"]
    for r in sources:
        for key, cls, word, record in registries.items(r):
            ent = cls(record)
            try:
                if not ent.is_valid():
                    continue
            except Exception:  # noqa -- totality of is_valid is C17's subject
                continue
            (mods if kits.role_of(cls) == "module" else vecs)[key] = ent
    if reg == "plant":
        from Bio.Restriction import BsaI
        g = dna.geometry(BsaI)
        M, V = plasmid.generic_classes(BsaI)
        bv = plasmid.build_vector(g, {"o_down": "GGAG", "o_up": "CGCT", "p": "TTTACATTTACA",
                                      "b": "AACCATTACATTACTTACAACCAATACA", "x": "A", "y": "T", "id": "genvec"})
        gv = V(bv.record())
        try:
            if gv.is_valid():
                vecs["generated-GGAG-CGCT"] = gv
        except Exception:  # noqa
            pass
    _WORLD[reg] = {"modules": mods, "vectors": vecs}
    return _WORLD[reg]


def _type_paths(world, vec, limit):
    """Paths of overhang pairs from vec.overhang_end to vec.overhang_start."""
    bytype = {}
    for key in sorted(world["modules"]):
        m = world["modules"][key]
        try:
            t = (str(m.overhang_start()).upper(), str(m.overhang_end()).upper())
        except Exception:  # noqa
            continue
        bytype.setdefault(t, []).append(key)
    paths = []
    try:
        start = str(vec.overhang_end()).upper()
        goal = str(vec.overhang_start()).upper()
    except Exception:  # noqa -- typing of registry plasmids is judged by other checks
        return paths, bytype

    def dfs(cur, path, seen):
        if len(paths) >= limit:
            return
        if cur == goal and path:
            paths.append(list(path))
            return
        for t in sorted(bytype):
            if t[0] == cur and t[0] not in seen and len(path) < 9:
                # starts must stay pairwise non-colliding
                if any(plasmid.collides(t[0], p[0]) for p in path):
                    continue
                dfs(t[1], path + [t], seen | {t[0]})
    dfs(start, [], set())
    return paths, bytype


def exhaustive_tasks(tier):
    return [[reg] for reg in registries.NAMES]


def _lcg(seed):
    x = (seed * 2654435761 + 12345) & 0x7FFFFFFF
    while True:
        x = (x * 1103515245 + 12345) & 0x7FFFFFFF
        yield x


def run_exhaustive(arg, ctx):
    mod = sys.modules[__name__]
    reg = arg[0]
    world = _world(reg)
    rnd = _lcg(ctx.seed)
    quick = ctx.tier == "quick"
    nvec = 0
    for vkey in sorted(world["vectors"]):
        vec = world["vectors"][vkey]
        paths, bytype = _type_paths(world, vec, 6 if quick else 60)
        if not paths:
            continue
        nvec += 1
        if nvec > (2 if quick else 6):
            break
        for tp in paths:
            path = [bytype[t][0] for t in tp]
            for j, t in enumerate(tp):
                sibs = [k for k in bytype[t] if k != path[j]]
                if quick and len(sibs) > 3:
                    picked = []
                    pool = list(sibs)
                    for _ in range(3):
                        picked.append(pool.pop(next(rnd) % len(pool)))
                    sibs = picked
                for s in sibs:
                    run_body(mod, {"kind": "registry", "reg": reg, "vector": vkey, "path": path,
                                   "pos": j, "repl": s}, ctx)
    ctx.event("registry-vectors-with-paths:" + reg, nvec)


@st.composite
def _gen_specs(draw):
    a = draw(plasmid.assembly_spec(max_chain=5, max_seg=30))
    g = dna.geometry(dna.enzyme_by_name(a["enzyme"]))
    repl = draw(plasmid.module_body(g, 40))
    if draw(st.integers(0, 3)) == 0:
        from vlib import gen
        repl["case"] = draw(gen.case_masks())     # same overhangs, other spelling
    return {"kind": "gen", "assembly": a, "pos": draw(st.integers(0, 5)), "repl": repl}


def strategies(tier):
    return {"gen": (_gen_specs(), 300 if tier == "quick" else 6000)}
