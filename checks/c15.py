# coding: utf-8
"""C15 -- a circular record behaves as a circle, never as a line."""
import itertools
import sys

from hypothesis import strategies as st

from vlib import dna, gen, rec
from vlib.runner import Violation, run_body, sut
from checks.c13 import features_strategy

ID = "C15"
LEVEL = "exploration"
TECHNIQUE = ("exhaustive enumeration over a 2-letter alphabet + property-based "
             "testing (Hypothesis) with a rotate-and-search membership oracle")
RULE = ("(membership) q in r  <=>  len(q) <= n and q occurs in some rotation of "
        "the word (oracle rotates, never doubles), equal for every rotation of r: "
        "exhaustive for all words over {A,C} of length 1-6 x all queries of length "
        "0..n+2, generated for ACGT words <= 40 with queries cut across the origin, "
        "of length n and n+1, and mutated; a quarter of these also replace r.seq by "
        "another word of the same length after a first query and ask again. (concatenation) r+x, x+r, r+=x for x in "
        "str/Seq/SeqRecord/CircularRecord/int/None/list raise TypeError. (linear) "
        "wrapping a record or annotations declaring topology linear in any case "
        "raises ValueError. (slices) every (start, stop, step) gives exact type "
        "SeqRecord with seq == word[slice] and no circular topology. (copy) edits of "
        "CircularRecord(existing) never change a deep snapshot of the original. "
        "Non-trivial = origin-spanning query, slice of an annotated record, or a "
        "copy-edit history; distinct = distinct spec.")
ASSUMPTIONS = [
    "membership queries are str (the statement says 'a string')",
    "records have length >= 1; MutableSeq is not generated",
]
EXHAUSTIVE_NOTE = "all words over {A,C} of length 1-6 x all queries over {A,C} of length 0..n+2 x all n rotations"
LEVEL_TEXT = ("Exploration with an exhaustive core for membership (2-letter alphabet, "
              "n <= 6); operand kinds for + are enumerated completely; slices, "
              "linear-topology spellings and copy-edit histories are sampled.")
LEVEL_NOTE = "Trusted: str.find, Python slicing, Bio.SeqRecord construction."
WALL_CAP = {"quick": 200, "thorough": 1500}


def _occurs(word, q):
    n = len(word)
    if len(q) > n:
        return False
    return any(q in dna.rot(word, i) for i in range(n))


def _check_member(spec, ctx):
    from Bio.Seq import Seq
    from moclo.record import CircularRecord
    word, q = spec["seq"], spec["q"]
    n = len(word)
    want = _occurs(word, q)
    base = CircularRecord(Seq(word), id="r")
    for i in range(n):
        r1 = CircularRecord(Seq(dna.rot(word, i)), id="r")
        got = sut(lambda: q in r1)
        if got is not want and got != want:
            raise Violation("MEMBER", "%r in circular %r (rotation %d of %r) is %r, expected %r"
                            % (q, dna.rot(word, i), i, word, got, want))
        if spec.get("real_rot"):
            r2 = sut(lambda: base >> i)
            got2 = sut(lambda: q in r2)
            if bool(got2) != want:
                raise Violation("MEMBER", "%r in (r >> %d) is %r, expected %r" % (q, i, got2, want))
    if spec.get("seq2"):
        # the sequence of a record already queried is replaced (same length):
        # membership is about the record as it is now
        w2 = spec["seq2"][:n].ljust(n, "A")
        r3 = CircularRecord(Seq(word), id="r")
        sut(lambda: q in r3)
        r3.seq = Seq(w2)
        got3 = sut(lambda: q in r3)
        if bool(got3) != _occurs(w2, q):
            raise Violation("MEMBER-STALE", "%r in r is %r after r.seq was replaced by %r (was %r)"
                            % (q, got3, w2, word))
    spanning = want and q != "" and q not in word
    ctx.note(spec, spanning, ["member:origin-spanning"] if spanning else
             ["member:%s" % ("yes" if want else "no")])


_OPERANDS = ["str", "Seq", "SeqRecord", "CircularRecord", "int", "None", "list", "empty-str"]


def _operand(kind):
    from Bio.Seq import Seq
    from Bio.SeqRecord import SeqRecord
    from moclo.record import CircularRecord
    return {"str": "ACGT", "Seq": Seq("ACGT"), "SeqRecord": SeqRecord(Seq("ACGT"), id="x"),
            "CircularRecord": CircularRecord(Seq("ACGT"), id="x"), "int": 3,
            "None": None, "list": ["A"], "empty-str": ""}[kind]


def _check_add(spec, ctx):
    r = rec.build(spec)
    x = _operand(spec["operand"])
    for what, fn in (("r + x", lambda: r + x), ("x + r", lambda: x + r)):
        try:
            res = fn()
        except TypeError:
            continue
        except Exception as e:  # noqa
            raise Violation("ADD", "%s with x=%s raised %s, expected TypeError" % (what, spec["operand"], type(e).__name__))
        raise Violation("ADD", "%s with x=%s returned %s instead of raising TypeError" % (what, spec["operand"], type(res).__name__))
    try:
        r2 = r
        r2 += x
    except TypeError:
        pass
    except Exception as e:  # noqa
        raise Violation("ADD", "r += x with x=%s raised %s" % (spec["operand"], type(e).__name__))
    else:
        raise Violation("ADD", "r += x with x=%s did not raise TypeError" % spec["operand"])
    ctx.note(spec, True, ["add:" + spec["operand"]])


def _check_linear(spec, ctx):
    from Bio.Seq import Seq
    from Bio.SeqRecord import SeqRecord
    from moclo.record import CircularRecord
    topo = spec["topology"]
    src = SeqRecord(Seq(spec["seq"]), id="l", annotations={"topology": topo, "molecule_type": "DNA"})
    is_linear = topo.lower() != "circular"
    for what, fn in (("CircularRecord(SeqRecord)", lambda: CircularRecord(src)),
                     ("CircularRecord(Seq, annotations=)",
                      lambda: CircularRecord(Seq(spec["seq"]), annotations={"topology": topo}))):
        try:
            res = fn()
        except ValueError:
            if not is_linear:
                raise Violation("LINEAR", "%s refused topology %r" % (what, topo))
            continue
        except Exception as e:  # noqa
            raise Violation("LINEAR", "%s with topology %r raised %s" % (what, topo, type(e).__name__))
        if is_linear:
            raise Violation("LINEAR", "%s accepted a record declared %r" % (what, topo))
        if type(res) is not CircularRecord:
            raise Violation("LINEAR", "%s returned %s" % (what, type(res).__name__))
    ctx.note(spec, True, ["linear:" + ("refused" if is_linear else "accepted")])


def _check_slice(spec, ctx):
    from Bio.SeqRecord import SeqRecord
    r = rec.build(spec)
    a, b, c = spec["slice"]
    sl = slice(a, b, c)
    got = sut(lambda: r[sl])
    if type(got) is not SeqRecord:
        raise Violation("SLICE-TYPE", "r[%r] is a %s, expected a plain SeqRecord" % (sl, type(got).__name__))
    if str(got.seq) != spec["seq"][sl]:
        raise Violation("SLICE-SEQ", "r[%r] on %r = %r, expected %r" % (sl, spec["seq"], str(got.seq), spec["seq"][sl]))
    if str(got.annotations.get("topology", "linear")).lower() == "circular":
        raise Violation("SLICE-TOPOLOGY", "r[%r] claims circular topology" % (sl,))
    idx = spec.get("index")
    if idx is not None:
        ch = sut(lambda: r[idx])
        if ch != spec["seq"][idx]:
            raise Violation("SLICE-SEQ", "r[%d] = %r" % (idx, ch))
    ctx.note(spec, bool(spec.get("feats")) or bool(spec.get("ann")), ["slice"])


def _apply_edit(copy_, op):
    kind = op[0]
    if kind == "ann-set":
        copy_.annotations["topology"] = "edited"
        copy_.annotations["new"] = 1
    elif kind == "ann-nested":
        for v in copy_.annotations.values():
            if isinstance(v, dict):
                v["edited"] = True
            elif isinstance(v, list):
                v.append("edited")
    elif kind == "feat-append":
        from Bio.SeqFeature import SeqFeature, FeatureLocation
        copy_.features.append(SeqFeature(FeatureLocation(0, 1), type="new"))
    elif kind == "feat-pop" and copy_.features:
        copy_.features.pop()
    elif kind == "qual-edit":
        for f in copy_.features:
            f.qualifiers["label"] = ["edited"]
            f.qualifiers.setdefault("note", []).append("edited")
    elif kind == "qual-inplace":
        for f in copy_.features:
            for v in f.qualifiers.values():
                if isinstance(v, list):
                    v.append("edited")
    elif kind == "loc-edit":
        from Bio.SeqFeature import FeatureLocation
        for f in copy_.features:
            f.location = FeatureLocation(0, 1)
    elif kind == "type-edit":
        for f in copy_.features:
            f.type = "edited"
    elif kind == "dbxrefs":
        copy_.dbxrefs.append("edited:1")
    elif kind == "track":
        for k, v in copy_.letter_annotations.items():
            if isinstance(v, list) and v:
                v[0] = -99
    elif kind == "id":
        copy_.id = "edited"
        copy_.name = "edited"
        copy_.description = "edited"
    elif kind == "refs":
        for r in copy_.annotations.get("references", []):
            if hasattr(r, "authors"):
                r.title = "edited"


EDITS = ["ann-set", "ann-nested", "feat-append", "feat-pop", "qual-edit", "qual-inplace",
         "loc-edit", "type-edit", "dbxrefs", "track", "id", "refs"]


def _check_copy(spec, ctx):
    from Bio.SeqRecord import SeqRecord
    from moclo.record import CircularRecord
    cls = SeqRecord if spec.get("from") == "SeqRecord" else CircularRecord
    orig = rec.build(spec, cls=cls)
    before = rec.snapshot(orig)
    copy_ = sut(lambda: CircularRecord(orig))
    if type(copy_) is not CircularRecord:
        raise Violation("COPY", "CircularRecord(existing) returned %s" % type(copy_).__name__)
    snap_copy = rec.snapshot(copy_)
    d = rec.snapshot_diff({k: v for k, v in before.items() if k != "type"},
                          {k: v for k, v in snap_copy.items() if k != "type"})
    if d:
        raise Violation("COPY-CONTENT", "the wrapped copy differs from the original: %s" % d)
    for op in spec["edits"]:
        _apply_edit(copy_, [op])
        after = rec.snapshot(orig)
        d = rec.snapshot_diff(before, after)
        if d:
            raise Violation("COPY-ALIAS", "edit %r of the copy reached the original: %s" % (op, d))
    ctx.note(spec, True, ["copy-from:" + cls.__name__])


def check(spec, ctx):
    {"member": _check_member, "add": _check_add, "linear": _check_linear,
     "slice": _check_slice, "copy": _check_copy}[spec["kind"]](spec, ctx)


# --------------------------------------------------------------------------

def exhaustive_tasks(tier):
    return [["member", n] for n in range(1, 7)] + [["add"], ["linear"]]


def run_exhaustive(arg, ctx):
    mod = sys.modules[__name__]
    if arg[0] == "member":
        n = arg[1]
        for w in itertools.product("AC", repeat=n):
            word = "".join(w)
            for ln in range(0, n + 3):
                for q in itertools.product("AC", repeat=ln):
                    run_body(mod, {"kind": "member", "seq": word, "q": "".join(q),
                                   "real_rot": True}, ctx)
    elif arg[0] == "add":
        for op in _OPERANDS:
            for seq in ("A", "ACGT", "ACGTACGTAC"):
                run_body(mod, {"kind": "add", "seq": seq, "operand": op}, ctx)
                run_body(mod, {"kind": "add", "seq": seq, "operand": op,
                               "feats": [{"type": "misc_feature", "parts": [[0, 1, 1]],
                                          "quals": {"label": ["f0"]}}]}, ctx)
    else:
        for topo in ("linear", "Linear", "LINEAR", "lInEaR", "circular", "Circular", "CIRCULAR"):
            for seq in ("A", "ACGT"):
                run_body(mod, {"kind": "linear", "seq": seq, "topology": topo}, ctx)


@st.composite
def _member_specs(draw):
    n = draw(st.integers(1, 40))
    word = draw(gen.dna_text(n, n, alphabet=draw(st.sampled_from(["ACGT", "AC", "A"]))))
    style = draw(st.integers(0, 5))
    if style == 0:
        q = draw(gen.dna_text(0, n + 3))
    else:
        start = draw(st.integers(0, n - 1))
        ln = {1: draw(st.integers(0, n)), 2: n, 3: n + 1, 4: draw(st.integers(1, n)),
              5: draw(st.integers(max(1, n - 2), n))}[style]
        q = (word * 3)[start:start + ln]
        if style == 4 and q:
            i = draw(st.integers(0, len(q) - 1))
            q = q[:i] + draw(st.sampled_from("ACGT")) + q[i + 1:]
    spec = {"kind": "member", "seq": word, "q": q, "real_rot": draw(st.booleans())}
    if draw(st.integers(0, 3)) == 0:
        spec["seq2"] = draw(gen.dna_text(n, n))
    return spec


@st.composite
def _slice_specs(draw):
    n = draw(st.integers(1, 30))
    word = draw(gen.dna_text(n, n))
    lim = st.one_of(st.none(), st.integers(-n - 3, n + 3))
    step = draw(st.sampled_from([None, None, 1, 1, -1, 2, -2, 3]))
    spec = {"kind": "slice", "seq": word, "slice": [draw(lim), draw(lim), step],
            "index": draw(st.integers(-n, n - 1))}
    if draw(st.booleans()):
        spec["feats"] = [f for f in draw(features_strategy(n, 3))
                         if all(b <= n for a, b, s in f["parts"])]
    if draw(st.booleans()):
        spec["ann"] = {"topology": draw(st.sampled_from(["circular", "Circular"])), "molecule_type": "DNA"}
    return spec


@st.composite
def _copy_specs(draw):
    n = draw(st.integers(1, 20))
    spec = {"kind": "copy", "seq": draw(gen.dna_text(n, n)),
            "from": draw(st.sampled_from(["SeqRecord", "CircularRecord"])),
            "feats": draw(features_strategy(n, 3)),
            "dbxrefs": ["a:1"], "tracks": {"q": "index"},
            "ann": {"topology": "circular", "comment": ["c1"], "nested": {"k": [1]},
                    "molecule_type": "DNA"},
            "edits": draw(st.lists(st.sampled_from(EDITS), min_size=1, max_size=6))}
    if draw(st.booleans()):
        spec["refs"] = [{"title": "t1", "authors": "a"}]
    return spec


def strategies(tier):
    q = tier == "quick"
    return {"member": (_member_specs(), 800 if q else 15000),
            "slice": (_slice_specs(), 600 if q else 10000),
            "copy": (_copy_specs(), 300 if q else 5000)}
