# coding: utf-8
"""C09 -- the product records its provenance and is a complete GenBank record."""
import io
import re
import warnings
from collections import Counter

from hypothesis import strategies as st

from vlib import annot, dna, kits, plasmid
from vlib.runner import Violation, sut
from checks import c08, c11

ID = "C09"
LEVEL = "exploration"
TECHNIQUE = ("property-based testing (Hypothesis): provenance validity predicate "
             "(tiling + verbatim origin) over annotated single- and two-level "
             "assemblies, and a GenBank write/read round trip")
RULE = ("(a) C08's annotated assemblies (all enzymes, chains 1-4, features on every "
        "input, optional leftover module; in half of the cases the same vector and "
        "module objects are assembled a second time and that product is judged too) "
        "with drawn GenBank-legal id/name "
        "([A-Za-z0-9_.-]{1,16}); (b) two-level runs through the 8 kit triples of C11: "
        "the first product is typed by the next-level class and assembled into a "
        "generated next-level vector. Oracle: a CircularRecord (or a subclass); id/name as "
        "requested; topology circular; every supplied record's id is a token of the "
        "comment; the generated source features naming the supplied records are "
        "exactly one per retained fragment, each covers one contiguous circular "
        "stretch (a single span, or a join of pieces when it crosses the product's "
        "origin), together they cover every nucleotide exactly once, each tile's text occurs in the circular word of the plasmid its "
        "'plasmid' qualifier names; in two-level runs every inner tile is nested in "
        "an outer tile and its text occurs in the level-0 plasmid it names. Round "
        "trip SeqIO.write/read 'genbank': same sequence (case-folded), topology "
        "circular, same multiset of (type, sorted parts with strand None == +1). "
        "Non-trivial = >= 3 tiles or a second level; distinct = distinct spec.")
ASSUMPTIONS = [
    "generated provenance features = type 'source' with a 'plasmid' qualifier",
    "GenBank legality of ids: [A-Za-z0-9_.-]{1,16}; Bio.SeqIO is the GenBank reference implementation",
    "record ids of supplied records are distinct tokens",
]
LEVEL_TEXT = ("Exploration: sampled assemblies incl. two-level compositions; the oracle is "
              "a validity predicate over the product (tiling, verbatim origin, nesting) "
              "plus a serialisation round trip.")
LEVEL_NOTE = "Trusted: Bio.SeqIO GenBank writer/parser; string search."
WALL_CAP = {"quick": 260, "thorough": 3000}

_TOK = re.compile(r"[A-Za-z0-9_.\-]+")


def tiles_of(product, names):
    out = []
    for f in product.features:
        if c08.is_generated(f) and f.qualifiers["plasmid"] in names:
            out.append(f)
    return out


def _plasmid_of(f):
    v = f.qualifiers["plasmid"]
    return v[0] if isinstance(v, list) else v


def circular_arc(feature, n):
    """(start, length) of the circular stretch a provenance feature covers, or
    None if its parts do not add up to one contiguous stretch covered once.
    A tile may be written as a single span or, when it crosses the product's
    origin, as a join of pieces (in either order)."""
    cover = Counter()
    for (a, b, s) in dna.loc_parts(feature.location):
        if b <= a or b - a > n:
            return None
        for i in range(a, b):
            cover[i % n] += 1
    if not cover or max(cover.values()) > 1:
        return None
    length = len(cover)
    if length == n:
        return (0, n)
    starts = [i for i in cover if (i - 1) % n not in cover]
    if len(starts) != 1:
        return None
    return (starts[0], length)


def check_provenance(product, supplied, used, pid, pname, what, inner=None):
    """supplied: {id: circular word}; used: ids whose fragment is retained."""
    from moclo.record import CircularRecord
    if not isinstance(product, CircularRecord):
        raise Violation("TYPE", "%s: product is a %s" % (what, type(product).__name__))
    if product.id != pid or product.name != pname:
        raise Violation("ID-NAME", "%s: id/name %r/%r, requested %r/%r" % (what, product.id, product.name, pid, pname))
    if str(product.annotations.get("topology", "")).lower() != "circular":
        raise Violation("TOPOLOGY", "%s: topology %r" % (what, product.annotations.get("topology")))
    comment = product.annotations.get("comment", "")
    text = "\n".join(comment) if isinstance(comment, (list, tuple)) else str(comment)
    toks = set(_TOK.findall(text))
    for rid in supplied:
        if rid not in toks:
            raise Violation("COMMENT", "%s: comment %r does not name the supplied record %r" % (what, text, rid))
    P = str(product.seq).upper()
    n = len(P)
    tiles = [f for f in product.features if c08.is_generated(f) and _plasmid_of(f) in supplied]
    arcs = []
    for f in tiles:
        arc = circular_arc(f, n)
        if arc is None:
            raise Violation("TILE-SHAPE", "%s: provenance feature %s does not cover one contiguous stretch"
                            % (what, f.location))
        arcs.append((arc[0], arc[1], _plasmid_of(f)))
    arcs.sort()
    if Counter(x[2] for x in arcs) != Counter(used):
        raise Violation("TILE-COUNT", "%s: provenance features name %r, retained fragments come from %r"
                        % (what, sorted(x[2] for x in arcs), sorted(used)))
    cover = Counter()
    for a, ln, rid in arcs:
        for i in range(a, a + ln):
            cover[i % n] += 1
        word = supplied[rid].upper()
        if ln > len(word) or dna.circ_slice(P, a, ln) not in word + word:
            raise Violation("TILE-ORIGIN", "%s: tile starting at %d (%d nt) named %r does not occur verbatim "
                            "in that plasmid" % (what, a, ln, rid))
    if len(cover) != n or any(v != 1 for v in cover.values()):
        raise Violation("TILING", "%s: provenance features %r do not cover every nucleotide of [0, %d) "
                        "exactly once" % (what, arcs, n))
    if inner is not None:
        others = [f for f in product.features if c08.is_generated(f) and _plasmid_of(f) not in supplied]
        for f in others:
            rid = _plasmid_of(f)
            if rid not in inner:
                raise Violation("INNER-TILE", "%s: provenance feature names unknown plasmid %r" % (what, rid))
            arc = circular_arc(f, n)
            if arc is None:
                raise Violation("INNER-TILE", "%s: inner provenance feature %s is not one stretch" % (what, f.location))
            a, ln = arc
            if not any((a - x) % n + ln <= xl for x, xl, _ in arcs):
                raise Violation("INNER-TILE", "%s: inner provenance feature at %d (%d nt) of %r is not nested in "
                                "an outer one %r" % (what, a, ln, rid, arcs))
            word = inner[rid].upper()
            if dna.circ_slice(P, a, ln) not in word + word:
                raise Violation("INNER-TILE", "%s: inner tile at %d (%d nt) does not occur in %r" % (what, a, ln, rid))
        return len(arcs), len(others)
    return len(arcs), 0


def round_trip(product, what):
    from Bio import SeqIO
    from moclo.record import CircularRecord
    buf = io.StringIO()
    try:
        with warnings.catch_warnings():
            warnings.simplefilter("ignore")
            SeqIO.write(product, buf, "genbank")
            back = SeqIO.read(io.StringIO(buf.getvalue()), "genbank")
    except Exception as e:  # noqa
        raise Violation("GENBANK-WRITE", "%s: GenBank round trip raised %s: %s" % (what, type(e).__name__, str(e)[:200]))
    if str(back.seq).upper() != str(product.seq).upper():
        raise Violation("GENBANK-SEQ", "%s: sequence changed in the GenBank round trip" % what)
    if str(back.annotations.get("topology", "")).lower() != "circular":
        raise Violation("GENBANK-TOPOLOGY", "%s: read back topology %r" % (what, back.annotations.get("topology")))

    def sig(r):
        c = Counter()
        for f in r.features:
            if f.location is None:          # Biopython could not parse what was written
                c[(f.type, "unreadable location")] += 1
                continue
            c[(f.type, tuple(sorted((a, b, 1 if s is None else s) for a, b, s in dna.loc_parts(f.location))))] += 1
        return c
    a, b = sig(product), sig(back)
    if a != b:
        diff = sorted((a - b).items(), key=str)[:3], sorted((b - a).items(), key=str)[:3]
        raise Violation("GENBANK-FEATURES", "%s: features changed in the GenBank round trip: lost %r gained %r" % ((what,) + diff))
    try:
        CircularRecord(back)
    except Exception as e:  # noqa
        raise Violation("GENBANK-TOPOLOGY", "%s: the record read back cannot be wrapped as circular: %s" % (what, e))


def check(spec, ctx):
    if spec["kind"] == "single":
        a = spec["assembly"]
        pid, pname = spec["id"], spec["name"]
        e, g, bv, bms, M, V = plasmid.build_assembly(a, fresh_classes=True)
        recs = [annot.participant_record(bv, a["vector"])] + \
               [annot.participant_record(b, p) for b, p in zip(bms, a["modules"])]
        supplied = {b.id: b.seq for b in [bv] + bms}
        used = [b.id for b in [bv] + bms]
        mods = [M(r) for r in recs[1:]]
        if spec.get("leftover"):
            lo = plasmid.build_module(g, dict(spec["leftover"], id="leftover"))
            if not any(plasmid.collides(lo.up, b.up) for b in bms):
                mods.append(M(lo.record()))
                supplied["leftover"] = lo.seq

        vec = V(recs[0])
        sut(annot.touch, [vec] + mods, a)

        def go():
            with warnings.catch_warnings():
                warnings.simplefilter("ignore")
                order = a["order"] + list(range(len(bms), len(mods)))
                return vec.assemble(*[mods[i] for i in order], id=pid, name=pname)
        product = sut(go)
        ntiles, _ = check_provenance(product, supplied, used, pid, pname, "%s chain %d" % (a["enzyme"], len(bms)))
        round_trip(product, "single-level product")
        if spec.get("again"):
            # the same vector and module objects used for a second assembly
            again = sut(go)
            check_provenance(again, supplied, used, pid, pname,
                             "%s chain %d, second call on the same objects" % (a["enzyme"], len(bms)))
        ctx.note(spec, ntiles >= 3, ["single", "tiles:%d" % min(ntiles, 6)] +
                 (["with-unused-module"] if "leftover" in supplied else []))
        return
    # two-level
    lv = c11.build_level(spec["level"])
    tname = c11.TRIPLES[spec["level"]["triple"]][0].split(".")[1]
    if dna.count_sites(lv.expected, lv.g2) != 2:
        ctx.note(spec, False, ["skipped"])
        return
    p1 = c11.first_level(dict(spec["level"], id="level1"), lv)
    supplied1 = {"vec": lv.vseq}
    for i, s in enumerate(lv.mods):
        supplied1["ins%d" % i] = s
    check_provenance(p1, supplied1, list(supplied1), "level1", "level1", "level-1 product (%s)" % tname)
    round_trip(p1, "level-1 product")
    P = str(p1.seq).upper()
    ev = dna.cut_events(P, lv.g2)
    fwd = [x for x, s in ev if s == 1]
    rev = [x for x, s in ev if s == -1]
    if len(fwd) != 1 or len(rev) != 1:
        ctx.note(spec, False, ["skipped"])
        return
    k2 = lv.g2.k
    o1, o2 = dna.circ_slice(P, fwd[0], k2), dna.circ_slice(P, rev[0], k2)
    if o1 == o2:
        ctx.note(spec, False, ["skipped"])
        return
    M2, V2 = plasmid.generic_classes(lv.NC.cutter)
    bv2 = plasmid.build_vector(lv.g2, dict(spec["level"].get("vector2") or {}, o_down=o1, o_up=o2, id="vec2"))
    k = (spec["level"].get("ks") or [0])[0] % len(P)
    pid, pname = spec["id"], spec["name"]

    def go2():
        with warnings.catch_warnings():
            warnings.simplefilter("ignore")
            return V2(bv2.record()).assemble(lv.NC(p1 >> k), id=pid, name=pname)
    p2 = sut(go2)
    nt, ninner = check_provenance(p2, {"vec2": bv2.seq, "level1": P}, ["vec2", "level1"], pid, pname,
                                  "level-2 product (%s)" % tname, inner=supplied1)
    round_trip(p2, "level-2 product")
    ctx.note(spec, True, ["two-level", "triple:" + tname, "inner-tiles:%d" % min(ninner, 6)])


_ID = st.text(alphabet="ABCDEFGHIJKLMNOPQRSTUVWXYZabcdefghijklmnopqrstuvwxyz0123456789_.-",
              min_size=1, max_size=16).filter(lambda s: s not in ("vec", "vec2", "level1", "leftover"))


@st.composite
def _specs(draw):
    pid, pname = draw(_ID), draw(_ID)
    if draw(st.integers(0, 2)):
        a = draw(annot.annotated_assembly(max_chain=4, max_seg=25))
        spec = {"kind": "single", "assembly": a, "id": pid, "name": pname,
                "again": draw(st.booleans())}
        if draw(st.integers(0, 3)) == 0:
            g = dna.geometry(dna.enzyme_by_name(a["enzyme"]))
            lo = draw(plasmid.module_body(g, 15))
            from vlib import gen
            lo["o5"], lo["o3"] = draw(gen.dna_text(g.k, g.k)), draw(gen.dna_text(g.k, g.k))
            spec["leftover"] = lo
        return spec
    return {"kind": "two-level", "level": draw(c11.level_spec()), "id": pid, "name": pname}


def strategies(tier):
    return {"prov": (_specs(), 250 if tier == "quick" else 5000)}
