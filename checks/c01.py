# coding: utf-8
"""C01 -- assembly yields exactly the documented Golden Gate ligation product."""
import warnings

from hypothesis import strategies as st

from vlib import dna, plasmid
from vlib.runner import Violation, sut

ID = "C01"
LEVEL = "exploration"
TECHNIQUE = ("property-based testing (Hypothesis) over all 58 supported enzymes "
             "against the closed-form product of standard.rst built from the "
             "generator's own segments")
RULE = ("enzyme drawn uniformly over the 20 cut geometries of Bio.Restriction that "
        "satisfy the quantifier (58 enzymes; thorough: every enzyme round-robin); "
        "overhang chain of 1-6 (thorough 1-12) modules, distinct junction overhangs, "
        "palindromic ones allowed; every plasmid = canonical decomposition with drawn "
        "segments (stray sites repaired deterministically), drawn rotation, drawn "
        "argument order; thorough additionally sweeps all rotations of one "
        "participant. Oracle: up(v).b.prod(up(m_i).t_i) from the builder's segments, "
        "compared up to rotation, plus length = sum of retained fragments, plus no "
        "UnusedModules warning. Non-trivial = >= 2 modules and >= 1 plasmid whose "
        "origin lies strictly inside its site..site structure; distinct = distinct spec.")
ASSUMPTIONS = [
    "enzyme set = Bio.Restriction (Biopython 1.88) under C01's predicate, geometry read from numeric attributes",
    "each plasmid carries exactly the two designed sites (checked by the generator's repair pass)",
    "module targets >= 2 nt and vector backbones >= 2 nt, as the derived patterns require",
]
LEVEL_TEXT = ("Exploration: tens of thousands of generated assemblies per run "
              "covering every supported enzyme geometry, each compared with an "
              "independently computed closed form. Sampled, not exhaustive.")
LEVEL_NOTE = ("Trusted: Bio.Restriction numeric attributes (site, fst5, ovhg), "
              "Bio.Seq. The expected product never goes through moclo code.")
WALL_CAP = {"quick": 240, "thorough": 2400}


def prepare(spec, rotate_extra=None, fresh=True):
    """Harness side: build plasmids and classes. -> (V, M, bv, bms)"""
    e, g, bv, bms, M, V = plasmid.build_assembly(spec, fresh_classes=fresh)
    if rotate_extra is not None:
        who, k = rotate_extra
        b = bv if who == -1 else bms[who]
        b.rot = (b.rot + k) % b.n
        b.seq = dna.rot(b.word0, b.rot)
    return V, M, bv, bms


def run_assembly(V, M, bv, bms, order, **kw):
    """moclo side: wrap the records and assemble; UnusedModules warnings recorded."""
    vec = V(bv.record())
    mods = [M(b.record()) for b in bms]
    args = [mods[i] for i in order]
    with warnings.catch_warnings(record=True) as w:
        warnings.simplefilter("always")
        product = vec.assemble(*args, **kw)
    return product, [x for x in w if "Unused" in type(x.message).__name__]


def assemble(spec, rotate_extra=None, fresh=True):
    V, M, bv, bms = prepare(spec, rotate_extra, fresh)
    product, warns = sut(run_assembly, V, M, bv, bms, spec["order"])
    return product, warns, bv, bms


def verify_product(spec, product, warns, bv, bms, what="assemble"):
    from moclo.record import CircularRecord
    want = plasmid.expected_product(bv, bms)
    got = str(product.seq)
    if not isinstance(product, CircularRecord):
        raise Violation("TYPE", "%s returned %s" % (what, type(product).__name__))
    if len(got) != len(want):
        raise Violation("LENGTH", "%s (%s, %d modules): product has %d nt, retained "
                        "fragments sum to %d" % (what, spec["enzyme"], len(bms), len(got), len(want)))
    if not dna.circ_equal(got, want):
        raise Violation("SEQUENCE", "%s (%s, %d modules): product %r is not a rotation of "
                        "the documented product %r" % (what, spec["enzyme"], len(bms), got, want))
    if warns:
        raise Violation("WARNING", "%s emitted UnusedModules for a complete chain" % what)


def check(spec, ctx):
    product, warns, bv, bms = assemble(spec)
    verify_product(spec, product, warns, bv, bms)
    inside = sum(1 for b in [bv] + bms if b.origin_inside_structure())
    if spec.get("sweep") is not None:
        who = spec["sweep"]
        n = (bv if who == -1 else bms[who]).n
        for k in range(1, n):
            p2, w2, bv2, bms2 = assemble(spec, (who, k))
            verify_product(spec, p2, w2, bv2, bms2, "assemble (participant %d rotated by %d)" % (who, k))
        ctx.event("rotation-sweeps")
        inside = max(inside, 1)
    g = bv.g
    classes = ["geometry:%d/%d/%d" % g.key, "chain:%d" % len(bms), "enzyme:" + spec["enzyme"]]
    if inside:
        classes.append("wrapped-inputs>=1")
    ctx.note(spec, len(bms) >= 2 and inside >= 1, classes)


@st.composite
def _sweep_specs(draw):
    spec = draw(plasmid.assembly_spec(max_chain=3, max_seg=12))
    spec["sweep"] = draw(st.integers(-1, len(spec["modules"]) - 1))
    return spec


def strategies(tier):
    if tier == "quick":
        return {"gen": (plasmid.assembly_spec(max_chain=6, max_seg=40), 700),
                "sweep": (_sweep_specs(), 20)}
    out = {"gen": (plasmid.assembly_spec(max_chain=12, max_seg=120), 3000),
           "sweep": (_sweep_specs(), 150)}
    for name in plasmid.enzyme_names():
        out["enz:" + name] = (plasmid.assembly_spec(max_chain=6, max_seg=40, enzyme=name), 2000, 2)
    return out
