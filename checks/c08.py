# coding: utf-8
"""C08 -- annotations are inherited faithfully by the assembled plasmid."""
import warnings
from collections import Counter

from vlib import annot, dna, plasmid
from vlib.runner import Violation, sut

ID = "C08"
LEVEL = "exploration"
TECHNIQUE = ("property-based testing (Hypothesis) with a positional two-directional "
             "oracle: expected multiset of inherited features computed from the "
             "retained arcs known by construction")
RULE = ("C01's assemblies (all enzymes, chains 1-4, every participant at a drawn "
        "rotation) whose records carry generated feature tables drawn relative to the "
        "retained arc: parts inside / flush with either boundary / the whole arc / "
        "crossing a boundary / in the discarded region / whole record / anywhere; "
        "1-3 parts; strands +1/-1/None; origin-spanning parts written as compound "
        "joins and as the past-the-end form produced by a real extra rotation; in a "
        "third of the cases some participants are inspected (is_valid, overhangs, "
        "target_sequence) before the call. "
        "Oracle: multiset of (type, qualifiers, {(product position, strand)}) of the "
        "features lying entirely inside their record's retained arc, mapped through "
        "arc -> product offset, must EQUAL the multiset of the product's "
        "non-generated features (aligned at every rotation that aligns the "
        "sequences). Non-trivial = >= 1 inherited feature that is compound, on "
        "strand -1, flush with a boundary or origin-spanning in its source AND >= 1 "
        "dropped boundary-crossing feature; distinct = distinct spec.")
ASSUMPTIONS = [
    "generated provenance features are recognised by type 'source' plus a 'plasmid' qualifier (inputs never carry one)",
    "part order/splitting is not compared: features are compared as sets of (position, strand)",
    "if the product sequence is not the documented one (C01's subject) the case is not judged here",
    "zero-length, fuzzy and 'ref' locations are not generated; no /citation qualifiers here (C10)",
]
LEVEL_TEXT = ("Exploration: sampled annotated assemblies, each compared in both "
              "directions (nothing dropped, truncated, shifted, duplicated or invented) "
              "against positions computed from the generator's own decomposition.")
LEVEL_NOTE = "Trusted: feature construction in Biopython; annot.expected_images (position arithmetic on integers)."
WALL_CAP = {"quick": 240, "thorough": 2400}


def run_annotated(spec, fresh=True, **kw):
    """-> (product, unused warnings, bv, bms, records)"""
    e, g, bv, bms, M, V = plasmid.build_assembly(spec, fresh_classes=fresh)
    recs = [annot.participant_record(bv, spec["vector"])] + \
           [annot.participant_record(b, p) for b, p in zip(bms, spec["modules"])]

    def go():
        vec = V(recs[0])
        mods = [M(r) for r in recs[1:]]
        annot.touch([vec] + mods, spec)
        with warnings.catch_warnings(record=True) as w:
            warnings.simplefilter("always")
            return vec.assemble(*[mods[i] for i in spec["order"]], **kw), w
    product, w = sut(go)
    return product, w, bv, bms, recs


def alignments(product_seq, want):
    """All r such that position p of the product is position (p + r) % n of ``want``."""
    n = len(want)
    got = product_seq.upper()
    if len(got) != n:
        return []
    out = []
    dd = want + want
    start = dd.find(got)
    while start != -1 and start < n:
        out.append(start)
        start = dd.find(got, start + 1)
    return out


def is_generated(f):
    return f.type == "source" and "plasmid" in f.qualifiers


def _key(typ, quals, counter):
    q = tuple(sorted((k, tuple(v)) for k, v in quals.items() if k != "citation"))
    return (typ, q, tuple(sorted(counter.items(), key=str)))


def check(spec, ctx):
    product, w, bv, bms, recs = run_annotated(spec)
    want = plasmid.expected_product(bv, bms)
    rs = alignments(str(product.seq), want)
    if not rs:
        ctx.note(spec, False, ["unaligned-product (C01)"])
        return
    images, dropped, offsets, total = annot.expected_images(bv, bms, spec)
    exp = Counter(_key(t, q, c) for t, q, c, label, src, cite in images)
    last = None
    for r in rs:
        got = Counter()
        bylabel = {}
        for f in product.features:
            if is_generated(f):
                continue
            c = Counter()
            bad = False
            for (a, b, s) in dna.loc_parts(f.location):
                if b - a < 0 or b - a > total:
                    bad = True
                for i in range(a, b):
                    c[((i + r) % total, s)] += 1
            if bad:
                raise Violation("FEATURE-LOCATION", "product feature %s has illegal location %s" % (
                    f.qualifiers.get("label"), f.location))
            quals = {k: list(v) for k, v in f.qualifiers.items()}
            got[_key(f.type, quals, c)] += 1
            bylabel.setdefault(quals.get("label", ["?"])[0], []).append((f.type, quals, c))
        if got == exp:
            last = None
            break
        last = (got, bylabel)
    if last is not None:
        got, bylabel = last
        explabels = Counter(label for t, q, c, label, src, cite in images)
        gotlabels = Counter({k: len(v) for k, v in bylabel.items()})
        for label in dropped:
            if label in bylabel and label not in explabels:
                raise Violation("FEATURE-NOT-DROPPED", "feature %r overlaps a discarded region but "
                                "appears in the product at %r" % (label, sorted(bylabel[label][0][2], key=str)[:12]))
        for label, k in explabels.items():
            if gotlabels.get(label, 0) < k:
                raise Violation("FEATURE-LOST", "feature %r lies inside the retained fragment of its "
                                "record but is missing from the product" % label)
            if gotlabels.get(label, 0) > k:
                raise Violation("FEATURE-DUPLICATED", "feature %r appears %d times" % (label, gotlabels[label]))
        for label in gotlabels:
            if label not in explabels:
                raise Violation("FEATURE-INVENTED", "product feature %r is not the image of an input feature" % label)
        for t, q, c, label, src, cite in images:
            for (gt, gq, gc) in bylabel.get(label, []):
                if gc != c:
                    raise Violation("FEATURE-MOVED", "feature %r of %s covers %r in the product, its "
                                    "nucleotides are at %r" % (label, src, sorted(gc, key=str)[:12], sorted(c, key=str)[:12]))
                if gt != t or {k: v for k, v in gq.items() if k != "citation"} != q:
                    raise Violation("FEATURE-META", "feature %r: type/qualifiers %r %r != %r %r" % (label, gt, gq, t, q))
        raise Violation("FEATURE-MULTISET", "product features differ from the expected images")
    # classification
    interesting = 0
    pspecs = [spec["vector"]] + spec["modules"]
    for b, p in zip([bv] + bms, pspecs):
        A, L = b.arc
        extra = p.get("feat_rot", 0) % b.n
        for f in p.get("feats") or []:
            if annot.arcs_inside(f["arcs"], b.n, A, L, shift=extra):
                arcs = f["arcs"]
                flush = any(((a + extra - A) % b.n == 0) or ((a + extra - A) % b.n + min(ln, b.n) == L)
                            for a, ln, s, fm in arcs)
                wraps = any(((a + extra) % b.n) + min(ln, b.n) > b.n for a, ln, s, fm in arcs)
                if len(arcs) > 1 or any(s == -1 for a, ln, s, fm in arcs) or flush or wraps:
                    interesting += 1
    classes = ["inherited:%d" % min(len(images), 5), "dropped:%d" % min(len(dropped), 5)]
    if interesting:
        classes.append("inherited-interesting")
    ctx.note(spec, interesting >= 1 and len(dropped) >= 1, classes)


def strategies(tier):
    if tier == "quick":
        return {"annot": (annot.annotated_assembly(max_chain=4, max_seg=30), 350)}
    return {"annot": (annot.annotated_assembly(max_chain=6, max_seg=60), 6000)}
