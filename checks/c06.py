# coding: utf-8
"""C06 -- typing verdicts do not depend on what was typed before."""
import json
import os
import sys

from hypothesis import strategies as st

from vlib import dna, gen, kits
from vlib.runner import HarnessError, Reject, Violation, run_body

ID = "C06"
LEVEL = "exploration"
TECHNIQUE = ("history-based property testing: generated and exhaustively enumerated "
             "validation histories, each run in a forked pristine interpreter and "
             "compared query-by-query with the same query issued first in its own "
             "pristine fork")
RULE = ("a history is a list of queries (class, record, kind of record: CircularRecord / SeqRecord declared linear / SeqRecord declared circular) over the 85 concrete kit "
        "classes, generic classes and subclasses created inside the history (with "
        "and without an overriding signature); records are generated instances of "
        "the classes involved, optionally mutated, or a variant of another record with "
        "one extra site at the same origin; the wrappers created by earlier queries "
        "stay alive for the rest of the history. The history runs in one os.fork()ed "
        "child whose class state is pristine (the parent never validates); the "
        "oracle for every query is the same query run first in its own pristine "
        "fork: (is_valid, overhang_start, overhang_end, target) or the exception "
        "class. Exhaustive (both tiers): all 85x85 ordered pairs 'validate class A on "
        "an A-instance, then query B on that record and on a B-instance'. "
        "Non-trivial = some query's class has a proper ancestor or descendant (or "
        "shares a base kit class) queried earlier in the history; distinct = "
        "distinct history.")
ASSUMPTIONS = [
    "os.fork gives a child whose class objects are in the state of a fresh interpreter after importing the kits (asserted: no class holds a compiled pattern before forking, where that can be observed)",
    "registry loaders are not used (two of them validate while loading); records are built from strings",
]
EXHAUSTIVE_NOTE = "all 85 x 85 ordered (prime class, query class) pairs over one fixed instance per class"
LEVEL_TEXT = ("Exploration with an exhaustive core: every ordered pair of kit classes is "
              "tried as a 3-step history against fresh-interpreter baselines; longer "
              "histories (<= 8 queries, also with dynamically created subclasses) are "
              "sampled. The fork boundary makes each history a pure function of its spec.")
LEVEL_NOTE = "Trusted: os.fork/pipe; the pristine-state assertion reads StructuredRecord._regex only as a harness sanity check."
WALL_CAP = {"quick": 280, "thorough": 3000}


def _resolve(name, local):
    """Resolve a class name inside the child; 'sub:<base>' and 'sig:<base>:UP:DOWN'
    create a subclass the first time they are named in this history."""
    if name in local:
        return local[name]
    if name.startswith("sub:"):
        base = _resolve(name[4:], local)
        cls = type(str("Sub"), (base,), {})
    elif name.startswith("sig:"):
        _, basename, up, down = name.split(":")
        base = _resolve(basename, local)
        cls = type(str("SigSub"), (base,), {"signature": (up, down)})
    else:
        cls = kits.resolve_class(name, fresh=name.startswith(("gen:", "part:")))
    local[name] = cls
    return cls


def _record(word, topo):
    """'c': CircularRecord; 'l': SeqRecord declared linear; 'r': SeqRecord
    declared circular (same nucleotides, different kind of record)."""
    from Bio.Seq import Seq
    from Bio.SeqRecord import SeqRecord
    from moclo.record import CircularRecord
    if topo == "l":
        return SeqRecord(Seq(word), id="r", annotations={"topology": "linear"})
    if topo == "r":
        return SeqRecord(Seq(word), id="r", annotations={"topology": "circular"})
    if topo == "u":
        return SeqRecord(Seq(word), id="r")          # no topology annotation at all
    return CircularRecord(Seq(word), id="r")


_KEEP = []      # wrappers stay alive for the whole history (inside the child)


def _query(cls, word, topo="c"):
    try:
        ent = cls(_record(word, topo))
        _KEEP.append(ent)
        ok = ent.is_valid()
        if not ok:
            return [False]
        return [True, str(ent.overhang_start()), str(ent.overhang_end()),
                str(ent.target_sequence().seq)]
    except Exception as e:  # noqa -- reported as data; the comparison decides
        return ["EXC", type(e).__name__]


def _assert_pristine():
    from moclo.core._structured import StructuredRecord
    if not hasattr(StructuredRecord, "_regex"):
        return
    for name, cls in kits.kit_classes().items():
        for k in cls.__mro__:
            if k.__dict__.get("_regex") is not None:
                raise HarnessError("class %s already holds a compiled pattern in the parent" % k.__name__)


def run_forked(history, words):
    """Run the history in a forked child; -> list of results."""
    _assert_pristine()
    r, w = os.pipe()
    pid = os.fork()
    if pid == 0:
        code = 0
        try:
            os.close(r)
            local = {}
            out = []
            for q in history:
                cname, wi = q[0], q[1]
                out.append(_query(_resolve(cname, local), words[wi], q[2] if len(q) > 2 else "c"))
            data = json.dumps(out).encode()
            with os.fdopen(w, "wb") as fh:
                fh.write(data)
        except BaseException as e:  # noqa
            try:
                os.write(w, json.dumps({"child_error": repr(e)}).encode())
            except Exception:  # noqa
                pass
            code = 3
        finally:
            os._exit(code)
    os.close(w)
    chunks = []
    with os.fdopen(r, "rb") as fh:
        while True:
            c = fh.read(65536)
            if not c:
                break
            chunks.append(c)
    os.waitpid(pid, 0)
    data = json.loads(b"".join(chunks).decode() or "null")
    if not isinstance(data, list):
        raise HarnessError("forked child failed: %r" % (data,))
    return data


_BASELINE = {}


def baseline(cname, word, topo="c"):
    key = (cname, word, topo)
    if key not in _BASELINE:
        _BASELINE[key] = run_forked([[cname, 0, topo]], [word])[0]
    return _BASELINE[key]


def _related(a, b):
    """Do the two named classes share ancestry (proper ancestor/descendant or a common kit base)?"""
    if a == b:
        return False
    ca = kits.resolve_class(a.split(":")[1] if a.startswith(("sub:", "sig:")) else a)
    cb = kits.resolve_class(b.split(":")[1] if b.startswith(("sub:", "sig:")) else b)
    if a.startswith(("sub:", "sig:")) or b.startswith(("sub:", "sig:")):
        return issubclass(ca, cb) or issubclass(cb, ca)
    return (issubclass(ca, cb) or issubclass(cb, ca)) and ca is not cb


def check(spec, ctx):
    history, words = spec["history"], spec["words"]
    got = run_forked(history, words)
    nontrivial = False
    for i, (q, res) in enumerate(zip(history, got)):
        cname, wi = q[0], q[1]
        topo = q[2] if len(q) > 2 else "c"
        # baseline: for dynamically created subclasses the baseline is the same
        # creation + query in a fresh child
        want = baseline(cname, words[wi], topo)
        if res != want:
            prior = [h[0] for h in history[:i]]
            raise Violation("HISTORY-DEPENDENT",
                            "query %d: %s on %r (%s) answers %r after validating %r, but %r when "
                            "asked first in a fresh interpreter" % (
                                i, cname, words[wi], {"c": "CircularRecord", "l": "linear SeqRecord",
                                                      "r": "circular SeqRecord",
                                                      "u": "SeqRecord without topology"}[topo],
                                res, prior, want))
        if any(_related(cname, p[0]) for p in history[:i]):
            nontrivial = True
        if any(p[0] == cname and p[1] == wi and (p[2] if len(p) > 2 else "c") != topo for p in history[:i]):
            nontrivial = True           # same class and nucleotides, other topology
    ctx.event("queries", len(history))
    ctx.note(spec, nontrivial, ["history-len:%d" % len(history)])


# --------------------------------------------------------------------------

_FIXED = {}


def fixed_instance(cname):
    if cname not in _FIXED:
        spec = {"cls": cname, "filler": "ACGTTGCAAGCTTAGGCATC", "stars": [7], "b": "TTACATTCAATACAT", "rot": 0}
        _FIXED[cname] = kits.build_instance(spec)[1]
    return _FIXED[cname]


def exhaustive_tasks(tier):
    return kits.kit_class_names()


def run_exhaustive(a, ctx):
    mod = sys.modules[__name__]
    try:
        wa = fixed_instance(a)
    except Reject:
        ctx.reject("no-instance:" + a)
        return
    # same class, two records laid out alike: the second one carries one more
    # forward site of the cutter, written over backbone letters in front of the
    # structure (every other offset unchanged)
    g = kits.cutter_geometry(kits.resolve_class(a))
    shifted = dna.rot(wa, 14)
    if len(g.site) <= 10:
        extra = shifted[:2] + g.site + shifted[2 + len(g.site):]
        run_body(mod, {"history": [[a, 0], [a, 1], [a, 0]], "words": [shifted, extra]}, ctx)
        run_body(mod, {"history": [[a, 1], [a, 0], [a, 1]], "words": [shifted, extra]}, ctx)
    # the same class on the same nucleotides (structure spanning the origin) as
    # every kind of record, in two orders
    wrapped = dna.rot(wa, len(wa) // 2)
    run_body(mod, {"history": [[a, 0, "l"], [a, 0, "u"], [a, 0, "c"], [a, 0, "r"]], "words": [wrapped]}, ctx)
    run_body(mod, {"history": [[a, 0, "u"], [a, 0, "l"], [a, 0, "u"], [a, 0, "c"]], "words": [wrapped]}, ctx)
    for b in kits.kit_class_names():
        try:
            wb = fixed_instance(b)
        except Reject:
            ctx.reject("no-instance:" + b)
            continue
        spec = {"history": [[a, 0], [b, 0], [b, 1]], "words": [wa, wb]}
        run_body(mod, spec, ctx)


@st.composite
def _histories(draw):
    names = kits.kit_class_names()
    kit = draw(st.sampled_from(["ytk", "cidar", "ecoflex", "moclo", "plant", None]))
    pool = [n for n in names if kit is None or n.startswith(kit)] or names
    if kit == "plant":
        pool = pool + [n for n in names if n.startswith("moclo")]
    nrec = draw(st.integers(1, 3))
    words = []
    rec_classes = []
    for _ in range(nrec):
        cn = draw(st.sampled_from(pool))
        ispec = draw(kits.instance_spec(cn, max_star=12, max_b=20,
                                        n_mut=(0, 1) if draw(st.booleans()) else (0, 0)))
        try:
            words.append(kits.build_instance(ispec)[1])
        except Reject:
            import hypothesis
            hypothesis.reject()
        rec_classes.append(cn)
    if draw(st.integers(0, 2)) == 0:
        # a variant of the first record at the same origin: one extra site of
        # the cutter inserted, so two structure candidates share offsets with it
        g = kits.cutter_geometry(kits.resolve_class(rec_classes[0]))
        w = words[0]
        i = draw(st.integers(0, len(w)))
        site = g.site if draw(st.booleans()) else g.rsite
        if draw(st.integers(0, 3)) == 0:
            # three sites of another enzyme the kits use (harmless for this class)
            other = draw(st.sampled_from([e for e in ("BsaI", "BsmBI", "BbsI") if
                                          dna.geometry(dna.enzyme_by_name(e)).site != g.site]))
            fs = dna.geometry(dna.enzyme_by_name(other)).site
            w2 = w
            for _ in range(3):
                j = draw(st.integers(0, len(w2)))
                w2 = w2[:j] + fs + w2[j:]
            words.append(w2)
        elif draw(st.booleans()) and len(w) > len(site):
            # written over existing letters: every other offset stays where it was
            i = min(i, len(w) - len(site))
            words.append(w[:i] + site + w[i + len(site):])
        else:
            words.append(w[:i] + site + w[i:])
        rec_classes.append(rec_classes[0])
        nrec += 1
    nq = draw(st.integers(2, 8))
    history = []
    variant_pair = nrec >= 2 and words[-1] != words[0] and len(rec_classes) == nrec \
        and rec_classes[-1] == rec_classes[0] and draw(st.booleans())
    for _ in range(nq):
        style = draw(st.integers(0, 9))
        if style <= 4:
            cn = draw(st.sampled_from(pool))
        elif style <= 6:
            cn = draw(st.sampled_from(rec_classes))
        elif style == 7:
            cn = "sub:" + draw(st.sampled_from(pool))
        elif style == 8:
            parts = [n for n in pool if hasattr(kits.resolve_class(n), "signature")]
            if parts:
                up, down = draw(gen.dna_text(4, 4)), draw(gen.dna_text(4, 4))
                base = draw(st.sampled_from(parts))
                if draw(st.booleans()):
                    other = kits.resolve_class(draw(st.sampled_from(parts))).signature
                    if isinstance(other, tuple) and len(other[0]) == 4:
                        up, down = other
                cn = "sig:%s:%s:%s" % (base, up, down)
            else:
                cn = draw(st.sampled_from(pool))
        else:
            cn = draw(st.sampled_from(names))
        q = [cn, draw(st.integers(0, nrec - 1))]
        t = draw(st.integers(0, 5))
        if t >= 4:
            q.append(draw(st.sampled_from(["l", "r", "u"])))
        history.append(q)
        if history and draw(st.integers(0, 5)) == 0:
            # the same class on the same nucleotides under another topology
            history.append([q[0], q[1], draw(st.sampled_from(["l", "r", "c", "u"]))])
    if variant_pair:
        # the record and its one-more-site variant typed by the same class, in a drawn order
        pair = [[rec_classes[0], 0], [rec_classes[0], nrec - 1]]
        if draw(st.booleans()):
            pair.reverse()
        at = draw(st.integers(0, len(history)))
        history = history[:at] + pair + history[at:]
    return {"history": history[:10], "words": words}


def strategies(tier):
    return {"history": (_histories(), 60 if tier == "quick" else 1500)}
