# coding: utf-8
"""C14 -- reverse complement of a circular record stays circular and loses nothing."""
from collections import Counter

from hypothesis import strategies as st

from vlib import dna, gen, rec
from vlib.runner import Violation, sut
from checks.c13 import features_strategy

ID = "C14"
LEVEL = "exploration"
TECHNIQUE = ("property-based metamorphic testing (Hypothesis) against string-level "
             "reverse complement and stranded feature denotation")
RULE = ("ACGT records of length 1-40 with generated feature tables (C13's shapes), "
        "first rotated by drawn amounts with the real >> so past-the-end locations "
        "occur, then reverse-complemented. Oracle: type, seq == rc(word) computed on "
        "str; per label the multiset of (forward letters, strand) of the parts maps "
        "to (rc(letters), -strand); twice = identity on sequence and denotations; "
        "(r>>k).rc() equals r.rc()<<k in word and denotations. Non-trivial = a "
        "feature that is compound or has a part past the end; distinct = distinct spec.")
ASSUMPTIONS = [
    "coordinates (also the negative ones Biopython's _flip produces) are read modulo n",
    "part order inside a compound location is not compared (multiset of parts)",
    "letter annotations and id/name of the reverse complement are not part of the statement",
    "zero-length, fuzzy and 'ref' locations are not generated",
]
LEVEL_TEXT = ("Exploration: sampled records/feature tables/rotations, each checked "
              "against an oracle that works on plain strings; the four clauses of "
              "the statement are all asserted per case.")
LEVEL_NOTE = "Trusted: Bio.SeqRecord.reverse_complement location flipping is the code under test together with moclo's wrapper; oracle is dna.rc / rec.denote_feature."
WALL_CAP = {"quick": 200, "thorough": 1500}


def _denots(record, word):
    """label -> [Counter{(position mod n, strand)}] (nucleotide level, so the
    order and the splitting of parts do not matter)."""
    n = len(word)
    out = {}
    for f in record.features:
        label = f.qualifiers.get("label", [None])[0]
        c = Counter()
        for (a, b, s) in dna.loc_parts(f.location):
            if b - a < 0 or b - a > n:
                raise Violation("FEATURE-LOCATION", "illegal location %s on length %d" % (f.location, n))
            for i in range(a, b):
                c[(i % n, s)] += 1
        out.setdefault(label, []).append(c)
    return out


def _flip(counter, n):
    out = Counter()
    for (i, s), c in counter.items():
        out[(n - 1 - i, {1: -1, -1: 1, None: None}[s])] += c
    return out


def _shift(counter, n, k):
    out = Counter()
    for (i, s), c in counter.items():
        out[((i + k) % n, s)] += c
    return out


def _compare(what, got, want, n):
    if set(got) != set(want):
        raise Violation("FEATURE-LOST", "%s: labels %r != %r" % (what, sorted(map(str, got)), sorted(map(str, want))))
    for label in want:
        if len(got[label]) != len(want[label]):
            raise Violation("FEATURE-LOST", "%s: feature %r count changed" % (what, label))
        a = sorted(sorted(c.items(), key=str) for c in got[label])
        b = sorted(sorted(c.items(), key=str) for c in want[label])
        if a != b:
            raise Violation("FEATURE-DENOTE", "%s: feature %r covers (position, strand) %r, expected %r" % (what, label, a, b))


def _extract(feature, word):
    """The sequence a feature spells: its parts in the order listed, each read
    on its own strand (coordinates modulo n)."""
    n = len(word)
    out = []
    for (a, b, s) in dna.loc_parts(feature.location):
        w = dna.circ_slice(word, a % n, b - a)
        out.append(dna.rc(w) if s == -1 else w)
    return "".join(out)


def _spelling_clause(r, word, rcr, want):
    """Order-sensitive clause for features whose parts are uniformly stranded
    or uniformly strand-less: a stranded feature is the same physical object on
    the mirrored record, so it spells the same sequence; a strand-less one
    spells the reverse complement."""
    new = {}
    for f in rcr.features:
        new.setdefault(f.qualifiers.get("label", [None])[0], []).append(f)
    for f in r.features:
        label = f.qualifiers.get("label", [None])[0]
        strands = set(p.strand for p in f.location.parts)
        if len(new.get(label, [])) != 1:
            continue
        if any(int(p.end) - int(p.start) == len(word) for p in f.location.parts):
            continue                      # whole-circle parts: start point carries no information
        g = new[label][0]
        if strands <= {1, -1}:
            exp = _extract(f, word)
        elif strands == {None}:
            exp = dna.rc(_extract(f, word))
        else:
            continue
        got = _extract(g, want)
        if got != exp:
            raise Violation("FEATURE-SPELLING", "feature %r %s spells %r on the record and %r on its "
                            "reverse complement (%s), expected %r" % (label, f.location, _extract(f, word),
                                                                      got, g.location, exp))


def check(spec, ctx):
    from moclo.record import CircularRecord
    word = spec["seq"]
    n = len(word)
    r = rec.build(spec)
    for p in spec.get("pre") or []:
        r = sut(lambda: r >> p)
        word = dna.rot(word, p)
    if str(r.seq) != word:
        ctx.note(spec, False, ["rotation-broken (C13)"])
        return
    d0 = _denots(r, word)
    past = any(int(p.end) > n for f in r.features for p in f.location.parts)
    compound = any(len(f.location.parts) > 1 for f in r.features)

    rcr = sut(r.reverse_complement)
    if type(rcr) is not CircularRecord:
        raise Violation("TYPE", "reverse_complement returned %s" % type(rcr).__name__)
    want = dna.rc(word)
    if str(rcr.seq) != want:
        raise Violation("SEQ", "rc of %r is %r, expected %r" % (word, str(rcr.seq), want))
    if len(rcr.features) != len(r.features):
        raise Violation("FEATURE-LOST", "rc has %d features, had %d" % (len(rcr.features), len(r.features)))
    d1 = _denots(rcr, want)
    _compare("rc(r)", d1, {k: [_flip(c, n) for c in v] for k, v in d0.items()}, n)
    for f in rcr.features:
        label = f.qualifiers.get("label", [None])[0]
        src = [g for g in r.features if g.qualifiers.get("label", [None])[0] == label]
        if src and (f.type != src[0].type or dict(f.qualifiers) != dict(src[0].qualifiers)):
            raise Violation("FEATURE-META", "feature %r type/qualifiers changed" % label)

    _spelling_clause(r, word, rcr, want)

    if spec.get("edit"):
        # the reverse complement is edited in place (a site annotated on the
        # other strand); reverse-complementing it again must show the edit
        from vlib import rec as _rec
        late = _rec.make_features([{"type": "misc_feature", "parts": [[0, 1, 1]],
                                    "quals": {"label": ["late"]}}])[0]
        rcr.features.append(late)
        back = sut(rcr.reverse_complement)
        dd = _denots(back, str(back.seq))
        if "late" not in dd or dd["late"] != [Counter({(n - 1, -1): 1})]:
            raise Violation("STALE-RESULT", "a feature added to r.rc() at [0:1](+) is %s after reverse-"
                            "complementing again" % ("at %r" % dd.get("late") if "late" in dd else "missing"))
        rcr.features.pop()

    twice = sut(rcr.reverse_complement)
    if type(twice) is not CircularRecord or str(twice.seq) != word:
        raise Violation("TWICE", "rc(rc(r)) is %s %r, expected %r" % (type(twice).__name__, str(twice.seq), word))
    _compare("rc(rc(r))", _denots(twice, word), d0, n)

    k = spec["k"]
    a = sut(lambda: (r >> k).reverse_complement())
    b = sut(lambda: rcr << k)
    if str(a.seq) != str(b.seq):
        raise Violation("COMMUTE", "(r>>%d).rc() = %r but r.rc()<<%d = %r" % (k, str(a.seq), k, str(b.seq)))
    if str(a.seq) != dna.rc(dna.rot(word, k)):
        raise Violation("COMMUTE", "(r>>%d).rc() = %r, expected %r" % (k, str(a.seq), dna.rc(dna.rot(word, k))))
    _compare("(r>>k).rc() vs r.rc()<<k", _denots(a, str(a.seq)), _denots(b, str(b.seq)), n)
    _compare("(r>>k).rc() vs oracle", _denots(a, str(a.seq)), {kk: [_flip(_shift(c, n, k), n) for c in v] for kk, v in d0.items()}, n)
    classes = []
    if past:
        classes.append("past-the-end")
    if compound:
        classes.append("compound")
    if any(p.strand == -1 for f in r.features for p in f.location.parts):
        classes.append("minus-strand")
    if any(p.strand is None for f in r.features for p in f.location.parts):
        classes.append("strandless")
    ctx.note(spec, past or compound, classes)


@st.composite
def _specs(draw):
    n = draw(st.integers(1, 40))
    word = draw(gen.dna_text(n, n))
    spec = {"seq": word, "feats": draw(features_strategy(n, max_feats=4)),
            "k": draw(st.integers(-2 * n, 2 * n))}
    if draw(st.integers(0, 2)):
        spec["pre"] = draw(st.lists(st.integers(-n, 2 * n), min_size=1, max_size=3))
    if draw(st.booleans()):
        spec["ann"] = {"topology": "circular", "molecule_type": "DNA"}
    if draw(st.integers(0, 3)) == 0:
        spec["edit"] = True
    return spec


def strategies(tier):
    return {"rc": (_specs(), 2000 if tier == "quick" else 25000)}
