# coding: utf-8
"""C05 -- a part type accepts exactly the records with its signature overhangs."""
from hypothesis import strategies as st

from vlib import dna, gen, kits, plasmid
from vlib.runner import Violation, sut

ID = "C05"
LEVEL = "exploration"
TECHNIQUE = ("property-based testing (Hypothesis): part verdict compared with "
             "generic-class verdict AND an independent IUPAC signature match, for all "
             "signature-derived kit parts and user-defined parts over all 58 enzymes")
RULE = ("part class = one of the kit classes that derive their structure from their "
        "signature (all signature-typed classes except YTKPart234r) or a user-defined "
        "part type('P', (AbstractPart, Generic), {cutter, signature}) over a drawn "
        "enzyme with drawn IUPAC signatures (about 1 in 6 all-N), module or vector "
        "role; record = G-GEN plasmid of that enzyme/role (unique generic match by "
        "construction) whose overhangs are members of the signature, near-misses "
        "(one letter outside the signature's set), random, or a sibling type's "
        "signature; drawn rotation. Oracle: Part(r).is_valid() == Generic(r).is_valid() "
        "and IUPAC-match(signature, generic overhangs) with the table of dna.py; when "
        "accepted, overhangs and target equal the generic ones. characterize(): on "
        "YTKPart/CIDARPart/EcoFlexPart/MoCloPart and on user-defined bases with 1-4 "
        "subclasses: returns an instance of a candidate (direct subclass, or the class "
        "itself if concrete; candidates may override the base's cutter, as "
        "MoCloLevelMVector does) that the oracle says accepts; RuntimeError iff none "
        "accepts. Non-trivial = near-miss or degenerate-signature case; distinct = "
        "distinct spec.")
ASSUMPTIONS = [
    "the signature-free class is the generic module/vector class deriving its structure from the same enzyme",
    "candidates of characterize are the concrete types below the base (directly, or through abstract grouping classes) at call time, plus the base itself when concrete",
]
LEVEL_TEXT = ("Exploration: sampled records per part type against an independent "
              "two-clause oracle; every kit part type is hit many times per run "
              "(histogram in evidence).")
LEVEL_NOTE = "Trusted: dna.IUPAC table; G-GEN builder; the generic class's own verdict is taken as given (C04 decides it)."
WALL_CAP = {"quick": 240, "thorough": 2400}

_DERIVED = None
# signature-typed kit classes whose structure is NOT derived from the signature
# (documented: "Type 234r parts have these sites reversed")
HAND_WRITTEN = {"ytk.YTKPart234r"}


def derived_parts():
    """Kit part classes whose structure is the one AbstractPart derives."""
    global _DERIVED
    if _DERIVED is None:
        from moclo.core import AbstractPart
        out = []
        for name, cls in kits.kit_classes().items():
            if not issubclass(cls, AbstractPart):
                continue
            sig = getattr(cls, "signature", None)
            if not (isinstance(sig, tuple) and len(sig) == 2):
                continue
            if name in HAND_WRITTEN:
                continue
            out.append(name)
        _DERIVED = sorted(out)
    return _DERIVED


BASES = {"ytk": "YTKPart", "cidar": "CIDARPart", "ecoflex": "EcoFlexPart", "moclo": "MoCloPart"}


def _record(role, g, r):
    if role == "module":
        b = plasmid.build_module(g, r)
    else:
        b = plasmid.build_vector(g, {"o_down": r["o3"], "o_up": r["o5"], "p": r.get("t"),
                                     "b": r.get("b") or "AC", "x": r.get("x"), "y": r.get("y"),
                                     "rot": r.get("rot", 0)})
    return b


def oracle_accepts(sig, generic_ent):
    """Independent verdict: generic accepts and signature matches."""
    if not generic_ent.is_valid():
        return False
    return dna.iupac_match(sig[0], str(generic_ent.overhang_start())) and \
        dna.iupac_match(sig[1], str(generic_ent.overhang_end()))


def check(spec, ctx):
    from moclo.core import AbstractPart
    if spec["kind"] == "verdict":
        cls = kits.resolve_class(spec["part"], fresh=True)
        role = kits.role_of(cls)
        e = cls.cutter
        g = dna.geometry(e)
        M, V = plasmid.generic_classes(e, fresh=True)
        G = M if role == "module" else V
        b = _record(role, g, spec["rec"])
        part = cls(b.record())
        gen_ent = G(b.record())
        sig = cls.signature
        want = sut(oracle_accepts, sig, gen_ent)
        got = sut(part.is_valid)
        if got is not True and got is not False:
            raise Violation("NOT-BOOL", "is_valid returned %r" % (got,))
        if got != want:
            ov = (str(gen_ent.overhang_start()), str(gen_ent.overhang_end())) if gen_ent.is_valid() else None
            raise Violation("VERDICT:" + ("accepts-non-member" if got else "rejects-member"),
                            "%s (signature %r, %s, %s) on %r: is_valid=%s but generic class accepts=%s "
                            "with overhangs %r" % (cls.__name__, sig, e.__name__, role, b.seq, got,
                                                   gen_ent.is_valid(), ov))
        if got:
            for name in ("overhang_start", "overhang_end"):
                if str(sut(getattr(part, name))) != str(getattr(gen_ent, name)()):
                    raise Violation("VALUES", "%s.%s = %r, generic %r" % (
                        cls.__name__, name, str(getattr(part, name)()), str(getattr(gen_ent, name)())))
            if str(sut(part.target_sequence).seq) != str(gen_ent.target_sequence().seq):
                raise Violation("VALUES", "%s target differs from the generic class's" % cls.__name__)
        degenerate = any(c not in "ACGT" for c in (sig[0] + sig[1]).upper())
        classes = ["part:" + spec["part"].split(":")[0].split(".")[0], "verdict:%s" % got,
                   "style:" + spec.get("style", "?")]
        ctx.note(spec, spec.get("style") == "near-miss" or degenerate, classes)
        return

    # characterize
    if spec["base"] in BASES:
        import importlib
        base = getattr(importlib.import_module("moclo.kits." + spec["base"]), BASES[spec["base"]])
    elif spec["base"] == "concrete":
        base = kits.resolve_class(spec["cls"])      # characterize called on a concrete type
    else:
        e0 = dna.enzyme_by_name(spec["enzyme"])
        base = type(str("UserBase"), (AbstractPart,), {"cutter": e0, "signature": NotImplemented})
        subs = []
        for i, sub in enumerate(spec["subs"]):
            role, up, down = sub[0], sub[1], sub[2]
            ei = dna.enzyme_by_name(sub[3]) if len(sub) > 3 else e0
            Mi, Vi = plasmid.generic_classes(ei, fresh=True)
            subs.append(type(str("UserType%d" % i), (base, Mi if role == "M" else Vi),
                             {"cutter": ei, "signature": (up, down)}))
    # the record is built for the enzyme of the candidate it was drawn for
    e = dna.enzyme_by_name(spec.get("rec_enzyme") or spec.get("enzyme") or base.cutter.__name__)
    g = dna.geometry(e)
    role = "module" if spec["role"] == "M" else "vector"
    b = _record(role, g, spec["rec"])
    record = b.record()
    # candidate types: the concrete types below the base (directly or through
    # abstract grouping classes), and the base itself when it is concrete
    cands = []
    todo = list(base.__subclasses__())
    while todo:
        c = todo.pop(0)
        if kits.is_concrete(c):
            if c not in cands:
                cands.append(c)
        else:
            todo.extend(c.__subclasses__())
    if kits.is_concrete(base):
        cands.append(base)
    accepting = []
    for c in cands:
        try:
            is_derived = c.structure() == AbstractPart.structure.__func__(c)
        except Exception:  # noqa
            is_derived = False
        if is_derived:
            M2, V2 = plasmid.generic_classes(c.cutter, fresh=True)
            G = M2 if kits.role_of(c) == "module" else V2
            ok = sut(oracle_accepts, c.signature, G(b.record()))
        else:
            ok = sut(c(b.record()).is_valid)
        if ok:
            accepting.append(c)
    try:
        ent = base.characterize(record)
    except RuntimeError as ex:
        if accepting:
            raise Violation("CHARACTERIZE:missed", "%s.characterize raised RuntimeError (%s) but %s "
                            "accept(s) %r" % (base.__name__, ex, [c.__name__ for c in accepting], b.seq))
        ctx.note(spec, True, ["characterize:none"])
        return
    except Exception as ex:  # noqa
        from vlib.runner import innermost_moclo_frame
        raise Violation("EXC:%s@%s" % (type(ex).__name__, innermost_moclo_frame(ex)),
                        "characterize raised %s: %s" % (type(ex).__name__, ex))
    if type(ent) not in cands:
        raise Violation("CHARACTERIZE:not-a-candidate", "characterize returned a %s" % type(ent).__name__)
    if type(ent) not in accepting:
        raise Violation("CHARACTERIZE:wrong-type", "%s.characterize returned %s for %r; accepting "
                        "candidates: %s" % (base.__name__, type(ent).__name__, b.seq,
                                            [c.__name__ for c in accepting]))
    if str(ent.record.seq) != str(record.seq) or not ent.is_valid():
        raise Violation("CHARACTERIZE:entity", "returned entity does not wrap the record or is not valid")
    ctx.note(spec, True, ["characterize:found", "base:" + spec["base"]])


# --------------------------------------------------------------------------

_SIG_ALPHA = "ACGTACGTACGTACGTRYSWKMBDHVN"


def _member(sig, filler):
    return "".join(gen.pick(c, f) for c, f in zip(sig, filler * 4))


def _near_miss(sig, member, pos, letter_idx):
    pos %= len(sig)
    outside = [c for c in "ACGT" if c not in dna.IUPAC[sig[pos].upper()]]
    if not outside:
        return member
    return member[:pos] + outside[letter_idx % len(outside)] + member[pos + 1:]


@st.composite
def _overhangs(draw, sig, siblings):
    k = len(sig[0])
    style = draw(st.sampled_from(["member", "member", "near-miss", "near-miss", "random", "sibling"]))
    fill = draw(gen.dna_text(2 * k, 2 * k))
    up, down = _member(sig[0], fill[:k]), _member(sig[1], fill[k:])
    if style == "near-miss":
        which = draw(st.integers(0, 1))
        pos, li = draw(st.integers(0, k - 1)), draw(st.integers(0, 2))
        if which == 0:
            up = _near_miss(sig[0], up, pos, li)
        else:
            down = _near_miss(sig[1], down, pos, li)
    elif style == "random":
        up, down = draw(gen.dna_text(k, k)), draw(gen.dna_text(k, k))
    elif style == "sibling" and siblings:
        s2 = draw(st.sampled_from(siblings))
        f2 = draw(gen.dna_text(2 * k, 2 * k))
        up, down = _member(s2[0], f2[:k]), _member(s2[1], f2[k:])
    return style, up, down


@st.composite
def _rec(draw, g, up, down):
    return {"o5": up, "o3": down, "x": draw(gen.dna_text(g.n, g.n)), "y": draw(gen.dna_text(g.n, g.n)),
            "t": draw(gen.dna_text(2, 25)), "b": draw(gen.dna_text(2, 25)),
            "rot": draw(st.integers(0, 200))}


@st.composite
def _verdict_specs(draw):
    if draw(st.booleans()):
        name = draw(st.sampled_from(derived_parts()))
        cls = kits.resolve_class(name)
        sig = cls.signature
        kit = name.split(".")[0]
        siblings = [kits.resolve_class(n).signature for n in derived_parts() if n.startswith(kit)]
        e = cls.cutter
    else:
        ename = draw(plasmid.enzyme_strategy())
        e = dna.enzyme_by_name(ename)
        k = dna.geometry(e).k
        if draw(st.integers(0, 5)) == 0:
            sig = ("N" * k, "N" * k)
        else:
            sig = (draw(st.text(alphabet=_SIG_ALPHA, min_size=k, max_size=k)),
                   draw(st.text(alphabet=_SIG_ALPHA, min_size=k, max_size=k)))
        name = "part:%s:%s:%s:%s" % (draw(st.sampled_from("MV")), ename, sig[0], sig[1])
        siblings = []
    g = dna.geometry(e)
    style, up, down = draw(_overhangs(sig, siblings))
    return {"kind": "verdict", "part": name, "style": style, "rec": draw(_rec(g, up, down))}


@st.composite
def _char_specs(draw):
    if draw(st.integers(0, 2)):
        kit = draw(st.sampled_from(sorted(BASES)))
        names = [n for n in derived_parts() if n.startswith(kit) or (kit == "moclo" and n.startswith("plant"))]
        sigs = [(kits.role_of(kits.resolve_class(n)), kits.resolve_class(n).signature,
                 kits.resolve_class(n).cutter.__name__) for n in names]
        role_, sig, ename = draw(st.sampled_from(sigs))
        # candidates that override the base's cutter get their share of cases
        other = [x for x in sigs if x[2] != sigs[0][2]]
        if other and draw(st.integers(0, 4)) == 0:
            role_, sig, ename = draw(st.sampled_from(other))
        g = dna.geometry(dna.enzyme_by_name(ename))
        style, up, down = draw(_overhangs(sig, [s for r, s, en in sigs if len(s[0]) == g.k]))
        return {"kind": "characterize", "base": kit, "role": "M" if role_ == "module" else "V",
                "rec_enzyme": ename, "rec": draw(_rec(g, up, down))}
    if draw(st.integers(0, 3)) == 0:
        # characterize called directly on a concrete type (its only candidate is itself)
        name = draw(st.sampled_from(derived_parts()))
        cls = kits.resolve_class(name)
        g = dna.geometry(cls.cutter)
        kit = name.split(".")[0]
        sibs = [kits.resolve_class(n).signature for n in derived_parts() if n.startswith(kit)]
        style, up, down = draw(_overhangs(cls.signature, [x for x in sibs if len(x[0]) == g.k]))
        return {"kind": "characterize", "base": "concrete", "cls": name,
                "role": "M" if kits.role_of(cls) == "module" else "V",
                "rec_enzyme": cls.cutter.__name__, "rec": draw(_rec(g, up, down))}
    ename = draw(plasmid.enzyme_strategy())
    subs = []
    for _ in range(draw(st.integers(1, 4))):
        en = ename if draw(st.integers(0, 2)) else draw(plasmid.enzyme_strategy())
        k = dna.geometry(dna.enzyme_by_name(en)).k
        sigtext = st.text(alphabet=_SIG_ALPHA, min_size=k, max_size=k)
        subs.append([draw(st.sampled_from("MV")), draw(sigtext), draw(sigtext), en])
    role_, s0, s1, en = draw(st.sampled_from(subs))
    g = dna.geometry(dna.enzyme_by_name(en))
    style, up, down = draw(_overhangs((s0, s1), [(a, b) for r, a, b, e2 in subs if len(a) == g.k]))
    spec = {"kind": "characterize", "base": "user", "enzyme": ename, "subs": subs, "rec_enzyme": en,
            "role": draw(st.sampled_from([role_, role_, "M", "V"])), "rec": draw(_rec(g, up, down))}
    return spec


def strategies(tier):
    q = tier == "quick"
    return {"verdict": (_verdict_specs(), 900 if q else 15000),
            "characterize": (_char_specs(), 250 if q else 5000)}
