# coding: utf-8
"""C10 -- literature citations survive assembly with consistent numbering."""
import copy
import re

from vlib import annot, dna, plasmid, rec
from vlib.runner import Violation, sut
from checks import c08

ID = "C10"
LEVEL = "exploration"
TECHNIQUE = ("property-based testing (Hypothesis): annotated assemblies with generated "
             "reference lists and /citation qualifiers, differential against the same "
             "assembly stripped of citations, plus reference-resolution oracle; "
             "three consecutive calls on the same objects")
RULE = ("C08's annotated assemblies where each input has a reference list of 0-4 "
        "references (one list in eight has 10-13 entries, so that two-digit indices "
        "occur; some references carry a base span) drawn from a pool of 14 (so references are shared between inputs, "
        "distinct within one; four of them differ from each other in a single field) and features citing 0-3 of them as '[n]' (always in "
        "range), cited features inside and outside the retained arcs. Oracle: (1) "
        "same product sequence as the run with all citations and reference lists "
        "stripped; (2) every citation of every inherited product feature is a string "
        "'[i]' with product.annotations['references'][i-1] field-wise equal to the "
        "reference the source feature's '[j]' named; (3) each cited reference occurs "
        "exactly once in the product's list; (4) the inputs' citation qualifiers and "
        "reference lists are unchanged after every call; (5) the 2nd and 3rd call on "
        "the same objects return the same product. Non-trivial = >= 2 inputs cite, "
        ">= 1 reference shared between inputs and >= 1 citing feature outside a "
        "retained arc; distinct = distinct spec.")
ASSUMPTIONS = [
    "citations are well-formed and in range; references are distinct within one record",
    "references are compared field-wise (title, authors, journal, pubmed id, medline id, comment); the pool contains references differing in one field only",
]
LEVEL_TEXT = ("Exploration: sampled assemblies with citations (a code path the suite "
              "never runs), each checked against a reference-resolution oracle and "
              "against its own citation-free twin, over three consecutive calls.")
LEVEL_NOTE = "Trusted: Bio.SeqFeature.Reference as a plain container; annot/rec builders."
WALL_CAP = {"quick": 240, "thorough": 2400}

_CIT = re.compile(r"^\[(\d+)\]$")


def _strip(spec):
    s = copy.deepcopy(spec)
    for p in [s["vector"]] + s["modules"]:
        p.pop("refs", None)
        for f in p.get("feats") or []:
            f.pop("cite", None)
    return s


def _input_citations(recs):
    out = []
    for r in recs:
        out.append((tuple(tuple(f.qualifiers.get("citation", ())) if all(
            isinstance(c, str) for c in f.qualifiers.get("citation", ())) else
            ("NOT-A-STRING",) + tuple(type(c).__name__ for c in f.qualifiers["citation"])
            for f in r.features),
            tuple(rec.ref_fields(x) for x in r.annotations.get("references", []))))
    return out


def check(spec, ctx):
    import warnings
    e, g, bv, bms, M, V = plasmid.build_assembly(spec, fresh_classes=True)
    recs = [annot.participant_record(bv, spec["vector"])] + \
           [annot.participant_record(b, p) for b, p in zip(bms, spec["modules"])]
    before = _input_citations(recs)
    vec = V(recs[0])
    mods = [M(r) for r in recs[1:]]
    args = [mods[i] for i in spec["order"]]
    sut(annot.touch, [vec] + mods, spec)

    def go():
        with warnings.catch_warnings():
            warnings.simplefilter("ignore")
            return vec.assemble(*args)

    plain_product, _, _, _, _ = c08.run_annotated(_strip(spec))
    pspecs = [spec["vector"]] + spec["modules"]
    src = {}
    for b, p in zip([bv] + bms, pspecs):
        refs = [annot.REF_POOL[i % len(annot.REF_POOL)] for i in (p.get("refs") or [])]
        for f in p.get("feats") or []:
            src[f["quals"]["label"][0]] = [refs[j - 1] for j in (f.get("cite") or [])]
    images, dropped, offsets, total = annot.expected_images(bv, bms, spec)
    products = []
    for call in (1, 2, 3):
        product = sut(go)
        products.append(product)
        if str(product.seq).upper() != str(plain_product.seq).upper():
            raise Violation("DIFFERS-FROM-CITATION-FREE", "call %d: product differs from the same "
                            "assembly without citations" % call)
        reflist = product.annotations.get("references", [])
        cited = []
        for f in product.features:
            if c08.is_generated(f):
                continue
            label = f.qualifiers.get("label", ["?"])[0]
            cits = f.qualifiers.get("citation", [])
            want = src.get(label, [])
            if len(cits) != len(want):
                raise Violation("CITATION-COUNT", "call %d: feature %r cites %d references, its "
                                "source cited %d" % (call, label, len(cits), len(want)))
            for cit, w in zip(cits, want):
                m = _CIT.match(cit) if isinstance(cit, str) else None
                if m is None:
                    raise Violation("CITATION-FORM", "call %d: feature %r has citation %r, not the "
                                    "GenBank form '[n]'" % (call, label, cit))
                i = int(m.group(1))
                if not 1 <= i <= len(reflist):
                    raise Violation("CITATION-RANGE", "call %d: feature %r cites [%d], the product "
                                    "has %d references" % (call, label, i, len(reflist)))
                got = reflist[i - 1]
                gf = rec.ref_fields(got)
                if (gf[1], gf[2], gf[3], gf[4], gf[5], gf[6]) != annot.ref_tuple(w):
                    raise Violation("CITATION-TARGET", "call %d: feature %r cites [%d] = %r, its source "
                                    "cited %r" % (call, label, i, getattr(got, "title", got), w["title"]))
                cited.append(rec.ref_fields(got))
        # a reference is identified by its descriptive fields (not by its base span)
        fields = [rec.ref_fields(x)[:7] for x in reflist]
        for c in set(x[:7] for x in cited):
            if fields.count(c) != 1:
                raise Violation("REFERENCE-LIST", "call %d: cited reference %r occurs %d times in the "
                                "product's reference list" % (call, c[1], fields.count(c)))
        after = _input_citations(recs)
        if after != before:
            for i, (a, b_) in enumerate(zip(before, after)):
                if a != b_:
                    raise Violation("INPUT-CITATIONS", "call %d: citations/references of input %d "
                                    "changed: %r -> %r" % (call, i, a, b_))
    s1 = rec.snapshot(products[0])
    for k, p in enumerate(products[1:], 2):
        d = rec.snapshot_diff(s1, rec.snapshot(p))
        if d:
            raise Violation("REPEAT-DIFFERS", "call %d returns a different product: %s" % (k, d))
    citing_inputs = sum(1 for p in pspecs if any(f.get("cite") for f in p.get("feats") or []))
    used = [set(p.get("refs") or []) for p in pspecs if any(f.get("cite") for f in p.get("feats") or [])]
    shared = any(used[i] & used[j] for i in range(len(used)) for j in range(i + 1, len(used)))
    outside = any(f.get("cite") and f["quals"]["label"][0] in dropped
                  for p in pspecs for f in p.get("feats") or [])
    inherited_citing = sum(1 for im in images if im[5])
    classes = ["citing-inputs:%d" % citing_inputs]
    if inherited_citing:
        classes.append("inherited-citing-features")
    if shared:
        classes.append("shared-reference")
    ctx.note(spec, citing_inputs >= 2 and shared and outside, classes)


def strategies(tier):
    if tier == "quick":
        return {"cite": (annot.annotated_assembly(max_chain=3, max_seg=25, with_refs=True), 220)}
    return {"cite": (annot.annotated_assembly(max_chain=5, max_seg=40, with_refs=True), 4000)}
