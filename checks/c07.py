# coding: utf-8
"""C07 -- assembly is pure: inputs are left untouched, even when it fails."""
import copy
import warnings

from hypothesis import strategies as st
from hypothesis.stateful import RuleBasedStateMachine, initialize, invariant, precondition, rule

from vlib import annot, dna, gen, plasmid, rec
from vlib.runner import Reject, Violation, guarded_step

ID = "C07"
LEVEL = "fault_enumeration"
TECHNIQUE = ("stateful property-based testing (Hypothesis RuleBasedStateMachine) over "
             "histories of assemble calls on shared objects with injected faults at "
             "every position of the chain; deep-snapshot invariant after every step "
             "and differential against the same call on freshly built copies")
RULE = ("state = one pool of shared record objects: a vector, the modules of a "
        "complete chain (1-4), a duplicate-start module, a leftover module and a "
        "vector whose two overhangs coincide, carrying generated feature tables and "
        "(in most runs) reference lists with /citation qualifiers. Rules: assemble a "
        "drawn sub-list in a drawn order (complete, with leftover, with a link "
        "missing at any position, with a duplicate, with the unusable vector), inspect "
        "a pool object (is_valid, overhangs, target_sequence) between calls, assemble "
        "with some modules replaced by rotations of the same plasmids made (with the "
        "real >>) before the first call, and "
        "assemble with a fault injected at crash point j = 0..chain length (the j-th "
        "consumed module's -- or for j = chain length the vector's -- fragment "
        "extraction raises InvalidSequence or RuntimeError). Invariant after every "
        "step: the deep snapshot (sequence, ids, dbxrefs, features with locations and "
        "qualifiers, annotations with references flattened, letter annotations) of "
        "every record equals the one taken before the first call. Oracle for "
        "results: the same call on objects freshly rebuilt from the spec gives the "
        "same product snapshot / exception class and attributes / warning. "
        "Non-trivial = a history with a failing call followed by a successful call on "
        "the same objects with citations present; distinct = distinct (pool, history).")
ASSUMPTIONS = [
    "an absent reference list is equivalent to an empty one (the statement says so)",
    "faults are injected by a harness-side subclass overriding target_sequence on the same record object",
    "citations well-formed; in a fifth of the pools one record carries a citation index past the end of its reference list (the call may then fail with IndexError, purity is still required)",
]
LEVEL_TEXT = ("Fault enumeration: for every generated pool the crash points of the "
              "walk (every j from 0 to the chain length, two exception kinds) and the "
              "documented failure classes are injected in generated orders, with a "
              "purity invariant checked after each step; histories are sampled, "
              "crash points within a history's chain are all reachable by rules.")
LEVEL_NOTE = "Trusted: rec.snapshot as the observation of a record; Hypothesis stateful engine."
WALL_CAP = {"quick": 260, "thorough": 3000}


class Pool(object):
    """Objects built from a base spec."""

    def __init__(self, base):
        self.base = base
        spec = base["assembly"]
        e, g, bv, bms, M, V = plasmid.build_assembly(spec, fresh_classes=True)
        self.M, self.V, self.g = M, V, g
        self.bv, self.bms = bv, bms
        L = len(bms)
        # extras: duplicate of a chain start, a leftover, a vector with equal overhangs
        ex = base["extras"]
        j = ex["dup_of"] % L
        dup = plasmid.build_module(g, dict(ex["dup_body"], o5=bms[j].up, o3=ex["dup_end"], id="dup"))
        left = plasmid.build_module(g, dict(ex["left_body"], o5=ex["left_start"], o3=ex["left_end"], id="left"))
        v2 = plasmid.build_vector(g, dict(ex["v2_body"], o_down=bv.down, o_up=bv.down, id="vec2"))
        self.builts = [bv, v2] + bms + [dup, left]
        pspecs = [spec["vector"], ex["v2_body"]] + spec["modules"] + [ex["dup_body"], ex["left_body"]]
        self.dangling = False
        if base.get("dangling") is not None:
            # one record carries a citation index past the end of its reference
            # list, listed before a well-formed citation (malformed input: the
            # call may fail, the inputs must still come back untouched)
            import copy
            who, extra = base["dangling"]
            who %= len(pspecs)
            p = copy.deepcopy(pspecs[who])
            refs = list(p.get("refs") or [0])
            p["refs"] = refs
            n = self.builts[who].n
            lab = self.builts[who].id
            p["feats"] = ([{"type": "misc_feature", "arcs": [[0, 1, 1, "simple"]],
                            "quals": {"label": [lab + "_dangling"]}, "cite": [len(refs) + 1 + extra % 3]}]
                          + list(p.get("feats") or [])
                          + [{"type": "misc_feature", "arcs": [[min(1, n - 1), 1, 1, "simple"]],
                              "quals": {"label": [lab + "_after"]}, "cite": [1]}])
            pspecs[who] = p
            self.dangling = True
        self.records = [annot.participant_record(b, p) for b, p in zip(self.builts, pspecs)]
        self.vectors = [V(self.records[0]), V(self.records[1])]
        self.modules = [M(r) for r in self.records[2:]]
        # sibling rotations of the chain modules (made with the real >> before
        # any call; they share qualifier objects with their originals)
        self.siblings = [M(r >> (7 + 3 * i)) for i, r in enumerate(self.records[2:2 + L])]
        self.nchain = L
        self.snapshots = [rec.snapshot(r) for r in self.records]

    def has_citations(self):
        return any("citation" in f.qualifiers for r in self.records for f in r.features)

    def call(self, step):
        """Run one assemble step; -> plain outcome."""
        from moclo import errors
        if step.get("op") == "inspect":
            ents = self.vectors + self.modules
            ent = ents[step["who"] % len(ents)]
            ok = ent.is_valid()
            if not ok:
                return ("inspected", False)
            return ("inspected", True, str(ent.overhang_start()), str(ent.overhang_end()),
                    rec.snapshot(ent.target_sequence()))
        vec = self.vectors[step["vector"]]
        sib = set(step.get("sib") or [])
        mods = [self.siblings[i] if (i in sib and i < self.nchain) else self.modules[i]
                for i in step["mods"]]
        fault = step.get("fault")
        if fault:
            j, kind = fault
            exc = errors.InvalidSequence(None, details="became invalid") if kind == "invalid" \
                else RuntimeError("injected fault")

            def boom(self_):
                raise exc
            if j >= self.nchain:
                Faulty = type(str("FaultyVector"), (self.V,), {"target_sequence": boom})
                vec = Faulty(vec.record)
            else:
                Faulty = type(str("FaultyModule"), (self.M,), {"target_sequence": boom})
                mods = [Faulty(m.record) if (m is self.modules[j] or m is self.siblings[j]) else m
                        for m in mods]
        with warnings.catch_warnings(record=True) as w:
            warnings.simplefilter("always")
            try:
                product = vec.assemble(*mods, id=step.get("id", "assembly"), name=step.get("name", "assembly"))
            except errors.MocloError as e:
                attrs = None
                if isinstance(e, errors.MissingModule):
                    attrs = str(e.start_overhang).upper()
                return ("error", type(e).__name__, attrs)
            except RuntimeError as e:
                if fault and str(e) == "injected fault":
                    return ("error", "RuntimeError", "injected fault")
                raise
            except IndexError:
                if self.dangling:
                    return ("error", "IndexError", "citation index out of range")
                raise
        unused = sorted(m.record.id for x in w if isinstance(x.message, errors.UnusedModules)
                        for m in x.message.remaining)
        return ("product", rec.snapshot(product), unused)

    def check_pure(self, what):
        for r, snap, b in zip(self.records, self.snapshots, self.builts):
            now = rec.snapshot(r)
            d = rec.snapshot_diff(snap, now)
            if d:
                field = d.split(":")[0].split("[")[0]
                raise Violation("INPUT-MUTATED:" + field,
                                "after %s the input record %r differs from its snapshot: %s"
                                % (what, b.id, d[:400]))


def _safe_call(pool, step):
    from vlib.runner import innermost_moclo_frame
    try:
        return pool.call(step)
    except Violation:
        raise
    except Exception as e:  # noqa
        raise Violation("EXC:%s@%s" % (type(e).__name__, innermost_moclo_frame(e)),
                        "step %r raised %s: %s" % (step, type(e).__name__, str(e)[:200]))


def _short(o):
    if o[0] == "product":
        return (o[0], o[1]["seq"][:40], o[2])
    if o[0] == "inspected" and len(o) > 4:
        return o[:4] + (o[4]["seq"][:40],)
    return o


def check(spec, ctx):
    """Replay entry point: a whole history from scratch."""
    pool = Pool(spec["base"])
    outcomes = []
    for i, step in enumerate(spec["steps"]):
        what = "assemble(%s)" % step
        try:
            got = _safe_call(pool, step)
        finally:
            pool.check_pure(what)
        want = _safe_call(Pool(spec["base"]), step)
        if got != want:
            raise Violation("RESULT-DEPENDS-ON-HISTORY", "%s (step %d) on used objects gives %r, "
                            "on fresh copies %r" % (what, i, _short(got), _short(want)))
        outcomes.append(got[0])
    nt = pool.has_citations() and any(
        outcomes[i] == "error" and "product" in outcomes[i + 1:] for i in range(len(outcomes)))
    ctx.note(spec, nt, ["steps:%d" % min(len(outcomes), 12)] +
             (["citations"] if pool.has_citations() else []) +
             (["fail-then-succeed"] if nt else []))


# --------------------------------------------------------------------------
# generation

@st.composite
def base_spec(draw, max_chain=4):
    asm = draw(annot.annotated_assembly(max_chain=max_chain, max_seg=20, with_refs=True))
    g = dna.geometry(dna.enzyme_by_name(asm["enzyme"]))
    used = [m["o5"] for m in asm["modules"]] + [asm["vector"]["o_up"]]

    def body(module=True):
        if module:
            b = draw(plasmid.module_body(g, 15))
        else:
            b = draw(plasmid.vector_body(g, 15))
        return b
    left_start = draw(gen.dna_text(g.k, g.k))
    extras = {
        "dup_of": draw(st.integers(0, 3)), "dup_end": draw(gen.dna_text(g.k, g.k)),
        "dup_body": body(), "left_body": body(), "v2_body": body(False),
        "left_start": left_start, "left_end": draw(gen.dna_text(g.k, g.k)),
    }
    base = {"assembly": asm, "extras": extras}
    if draw(st.integers(0, 4)) == 0:
        base["dangling"] = [draw(st.integers(0, 9)), draw(st.integers(0, 5))]
    # annotate the extras like the other participants
    for key in ("dup_body", "left_body", "v2_body"):
        p = extras[key]
        if draw(st.booleans()):
            p["refs"] = draw(st.lists(st.integers(0, 5), min_size=1, max_size=3, unique=True))
        n = 40
        p["feats"] = draw(annot.feature_table(n, 0, n // 2, max_feats=2, prefix=key[:3] + "_",
                                              nrefs=len(p.get("refs") or [])))
        p["feat_rot"] = 0
    return base


def make_machine(ctx, name):
    class AssemblyHistory(RuleBasedStateMachine):
        def __init__(self):
            super(AssemblyHistory, self).__init__()
            self.base = None
            self.pool = None
            self.steps = []
            self.outcomes = []

        def spec(self):
            return {"base": self.base, "steps": list(self.steps)}

        @initialize(base=base_spec())
        def setup(self, base):
            def build():
                try:
                    return Pool(base)
                except Reject:
                    import hypothesis
                    hypothesis.reject()
            self.base = base
            self.pool = guarded_step(ctx, self.spec, build)

        def _do(self, step):
            self.steps.append(step)

            def fn():
                pool = self.pool
                what = "assemble(%s)" % step
                try:
                    got = _safe_call(pool, step)
                finally:
                    pool.check_pure(what)
                want = _safe_call(Pool(self.base), step)
                if got != want:
                    raise Violation("RESULT-DEPENDS-ON-HISTORY",
                                    "%s on used objects gives %r, on fresh copies %r"
                                    % (what, _short(got), _short(want)))
                return got[0]
            out = guarded_step(ctx, self.spec, fn)
            self.outcomes.append(out)

        def _chain(self):
            return list(range(self.pool.nchain))

        @rule(data=st.data())
        def assemble_complete(self, data):
            order = data.draw(st.permutations(self._chain()))
            self._do({"vector": 0, "mods": list(order)})

        @rule(data=st.data())
        def assemble_with_siblings(self, data):
            # some modules replaced by a rotation of the same plasmid made earlier
            order = data.draw(st.permutations(self._chain()))
            sib = data.draw(st.lists(st.sampled_from(self._chain()), min_size=1, max_size=3, unique=True))
            self._do({"vector": 0, "mods": list(order), "sib": sorted(sib)})

        @rule(data=st.data())
        def assemble_with_leftover(self, data):
            mods = self._chain() + [self.pool.nchain + 1]
            self._do({"vector": 0, "mods": list(data.draw(st.permutations(mods)))})

        @rule(data=st.data())
        def assemble_missing_link(self, data):
            chain = self._chain()
            j = data.draw(st.integers(0, len(chain) - 1))
            mods = [m for m in chain if m != j]
            if data.draw(st.booleans()):
                mods.append(self.pool.nchain + 1)
            if not mods:
                mods = [self.pool.nchain + 1]
            self._do({"vector": 0, "mods": list(data.draw(st.permutations(mods)))})

        @rule(data=st.data())
        def assemble_with_duplicate(self, data):
            mods = self._chain() + [self.pool.nchain]
            self._do({"vector": 0, "mods": list(data.draw(st.permutations(mods)))})

        @rule(data=st.data())
        def assemble_invalid_vector(self, data):
            self._do({"vector": 1, "mods": list(data.draw(st.permutations(self._chain())))})

        @rule(data=st.data())
        def assemble_with_fault(self, data):
            j = data.draw(st.integers(0, self.pool.nchain))
            kind = data.draw(st.sampled_from(["invalid", "runtime"]))
            self._do({"vector": 0, "mods": list(data.draw(st.permutations(self._chain()))),
                      "fault": [j, kind]})

        @rule(who=st.integers(0, 7))
        def inspect(self, who):
            self._do({"op": "inspect", "who": who})

        @precondition(lambda self: self.outcomes and self.outcomes[-1] == "error")
        @rule()
        def retry_corrected(self):
            self._do({"vector": 0, "mods": self._chain(), "id": "retry", "name": "retry"})

        def teardown(self):
            if self.pool is None or not self.steps:
                return
            cit = self.pool.has_citations()
            nt = cit and any(self.outcomes[i] == "error" and "product" in self.outcomes[i + 1:]
                             for i in range(len(self.outcomes)))
            classes = ["steps:%d" % min(len(self.steps), 12)]
            if cit:
                classes.append("citations")
            if nt:
                classes.append("fail-then-succeed")
            for s in self.steps:
                if s.get("fault"):
                    classes.append("fault@%d:%s" % (min(s["fault"][0], 4), s["fault"][1]))
            ctx.note(self.spec(), nt, sorted(set(classes)))

    return AssemblyHistory


def machines(tier):
    # name -> (examples per shard, steps per example, shards)
    if tier == "quick":
        return {"history": (200, 12, 16)}
    return {"history": (600, 25, 16)}
