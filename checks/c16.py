# coding: utf-8
"""C16 -- DNA pattern search: IUPAC letter sets, leftmost circular search with
a one-turn window, group extraction across the origin.

Oracle: ``dna.ref_search`` (anchored match on the explicitly rotated string)
and the IUPAC table typed in ``dna.py``.
"""
import itertools

from hypothesis import strategies as st

from vlib import dna, gen
from vlib.runner import Violation, sut

ID = "C16"
LEVEL = "exploration"
RULE = ("differential against a rotation-based reference search: (a) all 15 "
        "IUPAC codes x ACGT x 2 cases; (b) a fixed family of 30 kit-like "
        "patterns x every target over ACGT of length 1-6 x 6 target kinds; "
        "(c) generated patterns (IUPAC letters, <=4 groups, greedy/lazy runs), "
        "targets over ACGTacgt built from a rotated instance of the pattern or "
        "random, drawn pos/endpos; thorough tier: the same strategy and oracle are "
        "additionally driven by atheris/libFuzzer (4 x 60000 runs, coverage-guided "
        "over moclo's instrumented code) and anything it reports is re-judged by the "
        "plain oracle. Non-trivial = the reported match runs past "
        "the end of the target (end() > n) or a letter-table case; distinct = "
        "distinct (pattern, target, kind, pos, endpos).")
ASSUMPTIONS = [
    "CPython re engine is shared by implementation and reference (only the "
    "transcription, windowing and group extraction are independent)",
    "targets are over ACGT in either case (pattern letter N vs target letter N "
    "is outside the statement)",
    "patterns use the dialect the kits use: IUPAC letters, X*, X*?, flat groups",
]
EXHAUSTIVE_NOTE = ("15 IUPAC codes x {A,C,G,T} x {upper,lower}; 30 fixed "
                   "patterns x all 5460 ACGT targets of length 1-6 x 6 kinds")
WALL_CAP = {"quick": 200, "thorough": 1500}

KINDS = ["seq_lin", "seq_circ", "rec_lin", "rec_circ", "circrec", "circrec_nl"]

FAMILY = [
    "A", "N", "(A)", "AC", "A(C)G", "A(CG)T", "(N)(N)(N)", "(NN)(N*)(NN)",
    "G(N)(N*)(N)C", "A(N*?)(C)", "(A)(N*)(T)", "R(Y)", "(S)(W)", "(K)(M)N",
    "B(D)", "(H)V", "N*", "(N*)", "(N*?)", "A()(C)", "()A", "(N)N*(N)",
    "GG(N*?)CC", "(AC)(N*?)(GT)", "N(NN)(N*)(NN)N", "(NNNN)", "(N)(NNNN)",
    "AN*?A(N)", "T(A)(N*)", "(C)(N*)(G)N*",
]


def _target(kind, text):
    from Bio.Seq import Seq
    from Bio.SeqRecord import SeqRecord
    from moclo.record import CircularRecord
    if kind.startswith("seq"):
        return Seq(text)
    if kind.startswith("rec"):
        return SeqRecord(Seq(text), id="t")
    return CircularRecord(Seq(text), id="t")


def _text_of(x):
    return str(x.seq) if hasattr(x, "seq") else str(x)


def check(spec, ctx):
    from moclo.regex import DNARegex
    if spec["kind"] == "letter":
        code, nt = spec["code"], spec["nt"]
        rx = sut(DNARegex, code)
        from Bio.Seq import Seq
        m = sut(rx.search, Seq(nt))
        expect = nt.upper() in dna.IUPAC[code]
        if (m is not None) != expect:
            raise Violation("LETTER", "pattern %r on %r: matched=%s expected=%s"
                            % (code, nt, m is not None, expect))
        # in context: flanked by a fixed letter, circular, origin between them
        ctxt = "G" + nt
        m2 = sut(DNARegex("G(" + code + ")").search, Seq(dna.rot(ctxt, 1)), linear=False)
        if (m2 is not None) != expect:
            raise Violation("LETTER", "pattern G(%s) on circular %r" % (code, ctxt))
        ctx.note(spec, True, ["letter"], sample=False)
        return

    pattern, text, kind = spec["pattern"], spec["target"], spec["tkind"]
    pos, endpos = spec.get("pos", 0), spec.get("endpos")
    circular = kind in ("seq_circ", "rec_circ", "circrec", "circrec_nl")
    linear_arg = kind in ("seq_lin", "rec_lin", "circrec")
    n = len(text)
    ref = dna.ref_search(pattern, text, circular, pos, endpos)
    target = _target(kind, text)
    rx = sut(DNARegex, pattern)
    kw = {"linear": linear_arg}
    if pos:
        kw["pos"] = pos
    if endpos is not None:
        kw["endpos"] = endpos
    m = sut(rx.search, target, **kw)
    if (m is None) != (ref is None):
        raise Violation("FOUND", "search %r on %s %r pos=%r endpos=%r: found=%s, "
                        "reference found=%s" % (pattern, kind, text, pos, endpos,
                                                m is not None, ref is not None))
    if ref is None:
        ctx.note(spec, False, ["nomatch"])
        return
    if sut(m.start) != ref.start:
        raise Violation("START", "%r on %s %r: start %r, leftmost admissible %r"
                        % (pattern, kind, text, m.start(), ref.start))
    if sut(m.end) != ref.end:
        raise Violation("END", "%r on %s %r: end %r != %r" % (pattern, kind, text, m.end(), ref.end))
    if m.end() - m.start() > n:
        raise Violation("TURN", "match longer than one turn")
    if not circular and m.end() > n:
        raise Violation("LINEAR-WRAP", "linear target matched past its end")
    straddle = 0
    for gi in range(len(ref.spans)):
        if sut(m.span, gi) != ref.spans[gi]:
            raise Violation("SPAN", "%r on %s %r: span(%d) %r != %r"
                            % (pattern, kind, text, gi, m.span(gi), ref.spans[gi]))
        got = _text_of(sut(m.group, gi))
        if got != ref.texts[gi]:
            raise Violation("GROUP-TEXT", "%r on %s %r: group(%d) = %r but the "
                            "group matched %r (span %r)" % (
                                pattern, kind, text, gi, got, ref.texts[gi], ref.spans[gi]))
        a, b = ref.spans[gi]
        if gi >= 1 and a < n < b:
            straddle += 1
    wrapped = ref.end > n
    classes = ["match", "kind:" + kind]
    if wrapped:
        classes.append("wrapped")
    if straddle:
        classes.append("group-straddles-origin")
    ctx.note(spec, wrapped, classes)


# --------------------------------------------------------------------------
# exhaustive

def exhaustive_tasks(tier):
    tasks = ["letters"] + list(range(len(FAMILY)))
    if tier == "thorough":
        tasks += [["atheris", i] for i in range(4)]
    return tasks


def _run_atheris(shard, ctx):
    """Secondary search engine (thorough tier): libFuzzer drives the same
    strategy and oracle; anything it finds is re-judged here by the plain
    oracle.  Unavailable or unstable fuzzer = recorded, never a verdict."""
    import json
    import os
    import shutil
    import subprocess
    import sys
    import tempfile
    from vlib.runner import VERIF, run_body
    mod = sys.modules[__name__]
    if not os.path.isdir(os.path.join(VERIF, ".deps", "atheris")):
        ctx.event("atheris:unavailable")
        return
    out = tempfile.mkdtemp(prefix="moclo-verif-atheris-")
    try:
        runs = 60000
        cmd = [sys.executable, os.path.join(VERIF, "checks", "c16_fuzz.py"), out,
               "-runs=%d" % runs, "-seed=%d" % (ctx.seed * 10 + shard + 1), "-max_len=4096",
               "-len_control=0", "-artifact_prefix=%s/" % out, os.path.join(out, "corpus")]
        os.makedirs(os.path.join(out, "corpus"))
        try:
            p = subprocess.run(cmd, stdout=subprocess.PIPE, stderr=subprocess.STDOUT, timeout=900, cwd=out)
        except subprocess.TimeoutExpired:
            ctx.event("atheris:timeout")
            p = None
        stats = {}
        if os.path.exists(os.path.join(out, "stats.json")):
            stats = json.load(open(os.path.join(out, "stats.json")))
        ctx.event("atheris:bodies", stats.get("bodies", 0))
        ctx.event("atheris:wrapped-matches", stats.get("wrapped", 0))
        ctx.evaluations += stats.get("bodies", 0)
        vf = os.path.join(out, "violation.json")
        if os.path.exists(vf):
            spec = json.load(open(vf))["spec"]
            ctx.event("atheris:reported")
            run_body(mod, spec, ctx)        # raises if the plain oracle agrees
            ctx.event("atheris:not-reproduced")
        elif p is not None and p.returncode != 0:
            ctx.event("atheris:abnormal-exit")
    finally:
        shutil.rmtree(out, ignore_errors=True)


def run_exhaustive(arg, ctx):
    from vlib.runner import run_body
    import sys
    mod = sys.modules[__name__]
    if isinstance(arg, list) and arg[0] == "atheris":
        return _run_atheris(arg[1], ctx)
    if arg == "letters":
        for code in sorted(dna.IUPAC):
            for nt in "ACGTacgt":
                run_body(mod, {"kind": "letter", "code": code, "nt": nt}, ctx)
        return
    pattern = FAMILY[arg]
    for ln in range(1, 7):
        for tup in itertools.product("ACGT", repeat=ln):
            text = "".join(tup)
            for kind in KINDS:
                run_body(mod, {"kind": "search", "pattern": pattern,
                               "target": text, "tkind": kind}, ctx)


# --------------------------------------------------------------------------
# generated

_CODES = "ACGTRYSWKMBDHVN"


@st.composite
def _patterns(draw):
    natoms = draw(st.integers(1, 8))
    atoms = []
    stars = 0
    for _ in range(natoms):
        kind = draw(st.integers(0, 9))
        code = draw(st.sampled_from(_CODES))
        if kind <= 5 or stars >= 2:     # <= 2 runs: bounded backtracking
            atoms.append(code)
        elif kind <= 7:
            atoms.append("N*" if draw(st.booleans()) else code + "*")
            stars += 1
        else:
            atoms.append("N*?" if draw(st.booleans()) else code + "*?")
            stars += 1
    # up to 4 flat groups: sorted cut positions, paired (open, close); an empty
    # group "()" arises when an open and its close share a position
    ngroups = draw(st.integers(0, 4))
    cuts = sorted(draw(st.lists(st.integers(0, natoms), min_size=2 * ngroups,
                                max_size=2 * ngroups)))
    out = []
    for i, a in enumerate(atoms + [""]):
        for j, c in enumerate(cuts):
            if c == i:
                out.append("(" if j % 2 == 0 else ")")
        out.append(a)
    return "".join(out)


@st.composite
def _search_specs(draw):
    pattern = draw(_patterns())
    toks = gen.parse_pattern(pattern)
    style = draw(st.integers(0, 3))
    if style == 0:
        text = draw(gen.dna_text(1, 40))
    else:
        filler = draw(gen.dna_text(1, 30))
        stars = draw(st.lists(st.integers(0, 6), min_size=1, max_size=4))
        inst, _ = gen.instantiate(toks, filler, stars)
        flank = draw(gen.dna_text(0, 12))
        text = inst + flank
        if not text:
            text = "A"
        text = dna.rot(text, draw(st.integers(0, len(text))))
    text = gen.apply_case(text, draw(gen.case_masks()))
    n = len(text)
    spec = {"kind": "search", "pattern": pattern, "target": text,
            "tkind": draw(st.sampled_from(KINDS))}
    if draw(st.integers(0, 3)) == 0:
        spec["pos"] = draw(st.integers(0, n + 1))
    if draw(st.integers(0, 3)) == 0:
        spec["endpos"] = draw(st.integers(0, n + 3))
    return spec


def strategies(tier):
    n = 2500 if tier == "quick" else 40000
    return {"search": (_search_specs(), n)}

TECHNIQUE = ("property-based differential testing (Hypothesis) + exhaustive "
             "enumeration of short targets against a rotation-based reference search")
LEVEL_TEXT = ("Exploration: the letter table and all targets of length <= 6 for "
              "30 kit-like patterns are enumerated completely; longer targets, "
              "arbitrary patterns and start ranges are sampled (tens of thousands "
              "of cases per run) and every reported start/end/span/group text is "
              "compared with an independent reference. Absence of violations "
              "beyond the enumerated bound is evidence, not proof.")
LEVEL_NOTE = ("Trusted: CPython re, Bio.Seq slicing/concatenation, Hypothesis. "
              "The reference shares no windowing or group-extraction code with moclo.")
