# coding: utf-8
"""C13 -- rotation of a circular record is a lossless group action."""
import itertools
import sys

from hypothesis import strategies as st

from vlib import dna, rec
from vlib.runner import Violation, run_body, sut

ID = "C13"
LEVEL = "exploration"
TECHNIQUE = ("property-based testing (Hypothesis) + exhaustive enumeration of "
             "small records, against a string-rotation / denotation oracle")
RULE = ("records over words of pairwise distinct symbols (by parametricity one "
        "word stands for all words of its length) with generated feature tables "
        "(simple, compound, origin-spanning, past-the-end, whole-length, "
        "source-typed, strands +1/-1/None) and 0-2 per-letter tracks; rotations "
        "k, j in [-3n, 3n], a multiple m*n, and earlier real rotations. Each "
        "of r>>k, (r>>k)>>j, r>>(k+j), r>>(m*n), (r>>k)<<k, r<<k is compared with "
        "the oracle: word = rot(word, total), every feature (matched by label) "
        "reads the same letters on the same strands in the same order (a part may be "
        "split into consecutive pieces; a part - or a whole feature - that walks once round "
        "the whole circle may start anywhere), every track value stays "
        "on its symbol, metadata carried over. Exhaustive: n<=6, all k in "
        "[-2n-1, 2n+1], every single simple/past-the-end location x 3 strands x "
        "{source, misc_feature}; all 2-part joins for n<=4. Non-trivial = total "
        "shift not a multiple of n with >=1 feature or track; distinct = distinct spec.")
ASSUMPTIONS = [
    "fuzzy positions and 'ref' locations are not generated; a zero-length (between-bases) location must stay zero-length in front of the same letter",
    "records have length >= 1",
    "a location part of full length n denotes the whole circle: compared up to rotation",
    "Bio.SeqFeature location arithmetic and Seq slicing are trusted",
]
EXHAUSTIVE_NOTE = ("n<=6 x all k in [-2n-1,2n+1] x all single locations (inside "
                   "and past-the-end) x 3 strands x 2 feature types x with/without "
                   "an index track; all 2-part joins for n<=4")
LEVEL_TEXT = ("Exploration with an exhaustively enumerated core: every rotation "
              "of every record of length <= 6 carrying any single location (and "
              "any 2-part join for n <= 4) is checked; longer records, 1-3-part "
              "locations, compositions and tracks are sampled. Parametricity in "
              "the letters makes words of distinct symbols representative.")
LEVEL_NOTE = ("Trusted: Bio.Seq/SeqFeature construction and `location + int`. "
              "Oracle: dna.rot and rec.denote_feature on plain strings.")
WALL_CAP = {"quick": 200, "thorough": 1500}

SYMBOLS = "ABCDEFGHIJKLMNOPQRSTUVWXYZabcdefghijklmnopqrstuvwxyz0123456789"


def _state(record, word):
    feats = {}
    for f in record.features:
        label = f.qualifiers.get("label", [None])[0]
        feats.setdefault(label, []).append(f)
    return feats


def _verify(what, r, spec, word0, denot0, total):
    from moclo.record import CircularRecord
    n = len(word0)
    want = dna.rot(word0, total)
    if type(r) is not CircularRecord:
        raise Violation("TYPE", "%s: result is %s" % (what, type(r).__name__))
    got = str(r.seq)
    if got != want:
        raise Violation("SEQ", "%s on %r: sequence %r, expected %r" % (what, word0, got, want))
    feats = _state(r, got)
    if len(r.features) != len(spec.get("feats") or []):
        raise Violation("FEATURE-COUNT", "%s: %d features, had %d" % (
            what, len(r.features), len(spec.get("feats") or [])))
    for fs in spec.get("feats") or []:
        label = fs["quals"]["label"][0]
        cands = feats.get(label, [])
        if len(cands) != 1:
            raise Violation("FEATURE-LOST", "%s: feature %r occurs %d times" % (what, label, len(cands)))
        f = cands[0]
        if f.type != fs["type"] or f.id != fs.get("id", "<unknown id>") or \
                {k: list(v) for k, v in f.qualifiers.items()} != fs["quals"]:
            raise Violation("FEATURE-META", "%s: feature %r type/id/qualifiers changed" % (what, label))
        try:
            flat = [x for part, whole in rec.reading(f, got) for x in part]
        except ValueError as e:
            raise Violation("FEATURE-LOCATION", "%s: feature %r has illegal location %s (%s)" % (
                what, label, f.location, e))
        ok = rec.same_reading(denot0[label], flat, n)
        if not ok and rec.closed_loop(denot0[label], word0):
            # a feature that walks once round the whole circle has no
            # distinguished start: any rotation of its reading is the same feature
            b = [x for part, whole in denot0[label] for x in part]
            ok = any(flat == b[r_:] + b[:r_] for r_ in range(len(b)))
        if not ok:
            raise Violation(
                "FEATURE-DENOTE" + (":source" if fs["type"] == "source" else ""),
                "%s on %r (now %r): feature %r %s at %s reads %r, it read %r before" % (
                    what, word0, got, label, fs["type"], f.location,
                    "".join("%s%s" % (c, {1: "+", -1: "-", None: ""}[s_]) for c, s_ in flat),
                    [("".join(c for c, s_ in part), part[0][1] if part else None, whole)
                     for part, whole in denot0[label]]))
    tracks = spec.get("tracks") or {}
    if set(r.letter_annotations) != set(tracks):
        raise Violation("TRACK", "%s: tracks %r != %r" % (what, sorted(r.letter_annotations), sorted(tracks)))
    for name, kind in tracks.items():
        t = r.letter_annotations[name]
        if len(t) != n:
            raise Violation("TRACK", "%s: track %r has length %d" % (what, name, len(t)))
        if kind == "self":
            ok = "".join(t) == got
        else:
            ok = all(isinstance(i, int) and 0 <= i < n and word0[i] == got[j]
                     for j, i in enumerate(t))
        if not ok:
            raise Violation("TRACK", "%s on %r (now %r): track %r = %r is no longer "
                            "attached to the same letters" % (what, word0, got, name, list(t)))
    if r.id != spec.get("id", "rec") or r.name != spec.get("name", spec.get("id", "rec")) \
            or r.description != spec.get("desc", "generated record") \
            or list(r.dbxrefs) != list(spec.get("dbxrefs") or []):
        raise Violation("META", "%s: id/name/description/dbxrefs not carried over" % what)
    if rec._plain(dict(r.annotations)) != rec._plain(dict(spec.get("ann") or {})):
        raise Violation("META", "%s: annotations %r != %r" % (what, dict(r.annotations), spec.get("ann")))


def check(spec, ctx):
    word = spec["seq"]
    n = len(word)
    r = rec.build(spec)
    denot0 = {}
    for f in r.features:
        denot0[f.qualifiers["label"][0]] = rec.reading(f, word)
    total = 0
    for p in spec.get("pre") or []:
        r = sut(lambda: r >> p)
        total += p
        _verify("pre-rotation >> %d" % p, r, spec, word, denot0, total)
    k, j, m = spec["k"], spec.get("j", 0), spec.get("m", 1)
    r1 = sut(lambda: r >> k)
    _verify("r >> %d" % k, r1, spec, word, denot0, total + k)
    if "j" in spec:
        r2 = sut(lambda: r1 >> j)
        _verify("(r >> %d) >> %d" % (k, j), r2, spec, word, denot0, total + k + j)
        r3 = sut(lambda: r >> (k + j))
        _verify("r >> (%d + %d)" % (k, j), r3, spec, word, denot0, total + k + j)
    if "m" in spec:
        r4 = sut(lambda: r >> (m * n))
        _verify("r >> %d*n" % m, r4, spec, word, denot0, total)
    r5 = sut(lambda: r1 << k)
    _verify("(r >> %d) << %d" % (k, k), r5, spec, word, denot0, total)
    r6 = sut(lambda: r << k)
    _verify("r << %d" % k, r6, spec, word, denot0, total - k)
    if spec.get("edit"):
        # the record is edited in place after it has been rotated once; the
        # next rotation by the same amount must see the record as it is now
        import copy
        late = {"type": "misc_feature", "parts": [[0, 1, 1]], "quals": {"label": ["late"]}}
        r.features.append(rec.make_features([late])[0])
        spec2 = copy.deepcopy(spec)
        spec2["feats"] = list(spec2.get("feats") or []) + [late]
        denot2 = dict(denot0)
        denot2["late"] = rec.reading(r.features[-1], dna.rot(word, total))
        r7 = sut(lambda: r >> k)
        _verify("r >> %d after adding a feature to r" % k, r7, spec2, word, denot2, total + k)
        r.features.pop()
    moved = (total + k) % n != 0
    has = bool(spec.get("feats")) or bool(spec.get("tracks"))
    classes = []
    for fs in spec.get("feats") or []:
        if len(fs["parts"]) > 1:
            classes.append("compound")
        if any(b > n for a, b, s in fs["parts"]):
            classes.append("past-the-end")
        if any(s == -1 for a, b, s in fs["parts"]):
            classes.append("minus-strand")
        if any(b - a == n for a, b, s in fs["parts"]):
            classes.append("whole-length")
        if fs["type"] == "source":
            classes.append("source-typed")
    if spec.get("tracks"):
        classes.append("tracks")
    if k < 0 or k >= n:
        classes.append("k-outside-[0,n)")
    ctx.note(spec, moved and has, sorted(set(classes)))


# --------------------------------------------------------------------------
# exhaustive

def _simple_parts(n):
    out = [(a, b) for a in range(n) for b in range(a + 1, n + 1)]
    out += [(a, e) for a in range(1, n) for e in range(n + 1, a + n + 1)]
    return out


def exhaustive_tasks(tier):
    tasks = [["single", n] for n in range(1, 7)]
    tasks += [["join", n, s1] for n in range(2, 5) for s1 in (1, -1, None)]
    return tasks


def run_exhaustive(arg, ctx):
    mod = sys.modules[__name__]
    n = arg[1]
    word = SYMBOLS[:n]
    ks = list(range(-2 * n - 1, 2 * n + 2))
    if arg[0] == "single":
        for (a, b) in _simple_parts(n):
            for s in (1, -1, None):
                for typ in ("source", "misc_feature"):
                    for tr in (None, {"q": "index"}):
                        for k in ks:
                            spec = {"seq": word, "k": k, "feats": [
                                {"type": typ, "parts": [[a, b, s]],
                                 "quals": {"label": ["f0"]}}]}
                            if tr:
                                spec["tracks"] = tr
                            run_body(mod, spec, ctx)
    else:
        s1 = arg[2]
        inside = [(a, b) for a in range(n) for b in range(a + 1, n + 1)]
        for (p1, p2) in itertools.product(inside, repeat=2):
            for s2 in (1, -1, None):
                for typ in ("source", "misc_feature"):
                    for k in ks:
                        spec = {"seq": word, "k": k, "feats": [
                            {"type": typ, "parts": [[p1[0], p1[1], s1], [p2[0], p2[1], s2]],
                             "quals": {"label": ["f0"]}}]}
                        run_body(mod, spec, ctx)


# --------------------------------------------------------------------------
# generated

@st.composite
def parts_strategy(draw, n, max_parts=3):
    shape = draw(st.integers(0, 9))
    strand = draw(st.sampled_from([1, -1, None]))
    if shape == 0:                       # whole length
        return [[0, n, strand]]
    if shape == 1 and n >= 2:            # origin-spanning compound join(a..n, 0..b)
        a = draw(st.integers(1, n - 1))
        b = draw(st.integers(1, a))
        first = [[a, n, strand], [0, b, strand]]
        return first if strand != -1 or draw(st.booleans()) else first[::-1]
    if shape == 2 and n >= 2:            # past-the-end simple form
        a = draw(st.integers(1, n - 1))
        e = draw(st.integers(n + 1, a + n))
        return [[a, e, strand]]
    if shape == 3 and draw(st.booleans()):   # between-bases location (GenBank 7^8)
        p = draw(st.integers(0, n))
        return [[p, p, strand]]
    nparts = 1 if shape <= 6 else draw(st.integers(2, max_parts))
    parts = []
    for _ in range(nparts):
        a = draw(st.integers(0, n - 1))
        b = draw(st.integers(a + 1, n))
        s = strand if draw(st.integers(0, 4)) else draw(st.sampled_from([1, -1, None]))
        parts.append([a, b, s])
    return parts


@st.composite
def features_strategy(draw, n, max_feats=4, types=("misc_feature", "source", "CDS")):
    feats = []
    for i in range(draw(st.integers(0, max_feats))):
        quals = {"label": ["f%d" % i]}
        if draw(st.booleans()):
            quals["note"] = [draw(st.sampled_from(["x", "y z", "promoter"]))]
        f = {"type": draw(st.sampled_from(types)), "parts": draw(parts_strategy(n)),
             "quals": quals}
        if draw(st.booleans()):
            f["id"] = "id%d" % i
        feats.append(f)
    return feats


@st.composite
def _specs(draw):
    n = draw(st.integers(1, 40))
    word = "".join(draw(st.permutations(SYMBOLS))[:n])
    spec = {"seq": word, "feats": draw(features_strategy(n)),
            "k": draw(st.integers(-3 * n, 3 * n)),
            "j": draw(st.integers(-3 * n, 3 * n)),
            "m": draw(st.integers(-3, 3))}
    tr = draw(st.integers(0, 3))
    if tr == 1:
        spec["tracks"] = {"q": "index"}
    elif tr == 2:
        spec["tracks"] = {"q": "index", "s": "self"}
    if draw(st.booleans()):
        spec["pre"] = draw(st.lists(st.integers(-n, 2 * n), min_size=1, max_size=3))
    if draw(st.integers(0, 3)) == 0:
        spec["edit"] = True
    if draw(st.booleans()):
        spec["id"] = draw(st.sampled_from(["pX", "plasmid_1"]))
        spec["dbxrefs"] = ["db:1"]
        spec["ann"] = {"topology": "circular", "comment": "c", "nested": {"a": [1, 2]}}
    return spec


def strategies(tier):
    return {"rot": (_specs(), 1200 if tier == "quick" else 20000)}
