# coding: utf-8
"""C03 -- the assembly verdict is a function of the overhang graph only."""
import itertools
import sys
import warnings

from hypothesis import strategies as st

from vlib import dna, gen, model, plasmid
from vlib.runner import Violation, run_body

ID = "C03"
LEVEL = "exploration"
TECHNIQUE = ("model-based property testing: exhaustive enumeration of bounded "
             "overhang graphs + Hypothesis-generated graphs, against a reference "
             "model of the verdict written from the statement")
RULE = ("vector (down, up) and a list of modules (start, end) over an overhang "
        "alphabet containing X, rc(X), a palindrome, Y, Z; every argument order "
        "given is run. Exhaustive (both tiers): BpiI, alphabet {ATGC, GCAT, ACGT, "
        "TTCC}: 16 vectors x every ordered tuple of <= 3 of the 16 module types "
        "(= all multisets x all permutations; thorough: <= 4, and a 3-nt-overhang "
        "enzyme). Generated: any enzyme geometry, 1-6 modules built from a complete "
        "chain perturbed by leftovers / dropped links / duplicated or "
        "reverse-complemented starts / cycles / equal vector overhangs, or drawn at "
        "random. Oracle: model.verdict -> admissible exception classes with "
        "attributes (stall overhang; two distinct colliding modules), or product = "
        "C01 formula over the model's chain and UnusedModules naming exactly the "
        "model's leftovers. Non-trivial = >= 2 modules; distinct = distinct "
        "(enzyme, vector, module list, order).")
ASSUMPTIONS = [
    "when several error conditions hold any of the corresponding exceptions is admissible",
    "a single module whose start overhang is its own reverse complement is not a colliding pair (statement: 'no two supplied modules')",
    "module/vector bodies are fixed small distinct strings; rotation is C02's subject",
]
EXHAUSTIVE_NOTE = ("BpiI, 4-overhang alphabet {X, rc X, palindrome, Y}: all 16 vectors x "
                   "all ordered tuples of <= 3 (thorough <= 4) module types")
LEVEL_TEXT = ("Exploration with an exhaustive core: every overhang graph with <= 3 "
              "modules over a 4-letter overhang alphabet that contains the equal / "
              "reverse-complementary / palindromic cases, in every argument order, is "
              "compared with the model; larger graphs and other enzymes are sampled.")
LEVEL_NOTE = "Trusted: the 40-line model in vlib/model.py; plasmid builder of C01."
WALL_CAP = {"quick": 240, "thorough": 3000}

TARGETS = ["AATT", "CATTA", "TTAAT", "ACATAC", "TATAAC", "CTTAATC", "AACCAAT", "TTCATT"]
BACKBONES = ["", "TTAA", "AC", "CAATT", "A", "TTTA", "ATAT", "CC"]

_BUILT = {}


def _built_module(ename, g, i, o5, o3):
    key = (ename, "m", i, o5, o3)
    if key not in _BUILT:
        _BUILT[key] = plasmid.build_module(g, {
            "o5": o5, "o3": o3, "t": TARGETS[i % 8] + "A" * (i // 8), "b": BACKBONES[i % 8],
            "x": "A" * g.n, "y": "T" * g.n, "id": "m%d" % i})
    return _BUILT[key]


def _built_vector(ename, g, down, up):
    key = (ename, "v", down, up)
    if key not in _BUILT:
        _BUILT[key] = plasmid.build_vector(g, {
            "o_down": down, "o_up": up, "p": "TTATT", "b": "CAACA",
            "x": "A" * g.n, "y": "T" * g.n, "id": "vec"})
    return _BUILT[key]


def _records(bv, bms, ids):
    """ids: None/'unique' (vec, m0, m1, ...), 'same' (every record, the vector
    included, carries the id 'plasmid'), 'default' (Biopython's '<unknown id>').
    Modules are identified by object identity, never by id."""
    from Bio.Seq import Seq
    from moclo.record import CircularRecord
    out = []
    for b in [bv] + bms:
        if ids == "same":
            out.append(CircularRecord(Seq(b.seq), id="plasmid", name="plasmid"))
        elif ids == "default":
            out.append(CircularRecord(Seq(b.seq)))
        else:
            out.append(b.record())
    return out


def _run(V, M, bv, bms, order, ids=None):
    from moclo import errors
    recs = _records(bv, bms, ids)
    vec = V(recs[0])
    mods = [M(r) for r in recs[1:]]
    args = [mods[i] for i in order]
    with warnings.catch_warnings(record=True) as w:
        warnings.simplefilter("always")
        try:
            product = vec.assemble(*args)
        except errors.MocloError as e:
            return ("error", e, mods)
        except Exception as e:  # noqa
            from vlib.runner import innermost_moclo_frame
            raise Violation("EXC:%s@%s" % (type(e).__name__, innermost_moclo_frame(e)),
                            "%s: %s" % (type(e).__name__, e))
    unused = [x.message for x in w if isinstance(x.message, errors.UnusedModules)]
    return ("product", product, mods, unused)


def check(spec, ctx):
    from moclo import errors
    ename = spec["enzyme"]
    e = dna.enzyme_by_name(ename)
    g = dna.geometry(e)
    vd, vu = spec["vector"]
    bv = _built_vector(ename, g, vd, vu)
    bms = [_built_module(ename, g, i, a, b) for i, (a, b) in enumerate(spec["modules"])]
    M, V = plasmid.generic_classes(e)
    want = model.verdict(bv.down, bv.up, [(b.up, b.down) for b in bms])
    desc = "vector %s->%s, modules %s" % (bv.down, bv.up, ["%s>%s" % (b.up, b.down) for b in bms])
    for order in spec["orders"]:
        res = _run(V, M, bv, bms, order, spec.get("ids"))
        where = "%s order %r" % (desc, order)
        if res[0] == "error":
            exc, mods = res[1], res[2]
            if want.is_product:
                raise Violation("SPURIOUS-" + type(exc).__name__,
                                "%s: raised %s (%s) but the graph defines the product %r"
                                % (where, type(exc).__name__, exc, want))
            # the documented class, or a (possibly new) subclass of it
            name = type(exc).__name__
            for doc in ("InvalidSequence", "DuplicateModules", "MissingModule"):
                if isinstance(exc, getattr(errors, doc)):
                    name = doc
            if name not in want.errors:
                raise Violation("WRONG-ERROR", "%s: raised %s, admissible: %s"
                                % (where, type(exc).__name__, sorted(want.errors)))
            if isinstance(exc, errors.MissingModule):
                if str(exc.start_overhang).upper() != want.stall:
                    raise Violation("STALL-OVERHANG", "%s: MissingModule names %r, chain stalls at %r"
                                    % (where, str(exc.start_overhang), want.stall))
            if isinstance(exc, errors.DuplicateModules):
                idx = []
                for d in exc.duplicates:
                    hits = [i for i, m in enumerate(mods) if m is d]
                    if len(hits) != 1:
                        raise Violation("DUPLICATES-ATTR", "%s: duplicates are not supplied modules" % where)
                    idx.append(hits[0])
                named = sorted(set(idx))
                pairs = [(a, b) for i, a in enumerate(named) for b in named[i + 1:]]
                if len(named) < 2 or not any(pr in want.dup_pairs for pr in pairs):
                    raise Violation("DUPLICATES-ATTR", "%s: DuplicateModules names modules %r, which do not "
                                    "include two different colliding modules (colliding pairs: %r)"
                                    % (where, idx, want.dup_pairs))
            ctx.event("outcome:" + name)
        else:
            product, mods, unused = res[1], res[2], res[3]
            if not want.is_product:
                raise Violation("MISSED-" + "|".join(sorted(want.errors)),
                                "%s: returned a %d-nt product but the model says %r"
                                % (where, len(product.seq), want))
            exp = plasmid.expected_product(bv, [bms[i] for i in want.chain])
            if not dna.circ_equal(str(product.seq), exp):
                raise Violation("PRODUCT", "%s: product %r is not the chain %r product %r"
                                % (where, str(product.seq), want.chain, exp))
            named = []
            for u in unused:
                for r in u.remaining:
                    hits = [i for i, m in enumerate(mods) if m is r]
                    named.extend(hits or [-1])
            if sorted(named) != sorted(want.unused):
                raise Violation("UNUSED-WARNING", "%s: UnusedModules named %r, left out: %r"
                                % (where, sorted(named), sorted(want.unused)))
            ctx.event("outcome:product" + ("+unused" if want.unused else ""))
    classes = ["modules:%d" % len(bms), "k:%d" % g.k]
    ctx.note(spec, len(bms) >= 2, classes, sample=len(bms) >= 3 or len(spec["orders"]) > 1)


# --------------------------------------------------------------------------
# exhaustive

ALPHA4 = ["ATGC", "GCAT", "ACGT", "TTCC"]
ALPHA3 = ["ATG", "CAT", "TTC", "GGA"]


def exhaustive_tasks(tier):
    tasks = [["BpiI", 4, vd, vu, 3] for vd in range(4) for vu in range(4)]
    if tier == "thorough":
        tasks = [["BpiI", 4, vd, vu, 4] for vd in range(4) for vu in range(4)]
        tasks += [["SapI", 3, vd, vu, 3] for vd in range(4) for vu in range(4)]
    return tasks


def run_exhaustive(arg, ctx):
    mod = sys.modules[__name__]
    ename, k, vd, vu, maxm = arg
    alpha = ALPHA4 if k == 4 else ALPHA3
    types = [(a, b) for a in alpha for b in alpha]
    for nm in range(1, maxm + 1):
        for combo in itertools.combinations_with_replacement(range(16), nm):
            orders = sorted(set(itertools.permutations(range(nm))))
            # distinct argument orders of the multiset: permutations of positions
            seen = set()
            uniq = []
            for o in orders:
                key = tuple(combo[i] for i in o)
                if key not in seen:
                    seen.add(key)
                    uniq.append(list(o))
            spec = {"enzyme": ename, "vector": [alpha[vd], alpha[vu]],
                    "modules": [list(types[c]) for c in combo], "orders": uniq}
            run_body(mod, spec, ctx)
            if nm <= 2:
                # the same graphs with records that all share one id
                run_body(mod, dict(spec, ids="same"), ctx)


# --------------------------------------------------------------------------
# generated

@st.composite
def _graph_specs(draw):
    ename = draw(plasmid.enzyme_strategy())
    g = dna.geometry(dna.enzyme_by_name(ename))
    k = g.k
    x = draw(gen.dna_text(k, k).filter(lambda s: dna.rc(s) != s))
    alpha = [x, dna.rc(x)]
    if k % 2 == 0:
        half = draw(gen.dna_text(k // 2, k // 2))
        alpha.append(half + dna.rc(half))
    for o in draw(st.lists(gen.dna_text(k, k), min_size=2, max_size=4)):
        if o not in alpha:
            alpha.append(o)
    ov = st.sampled_from(alpha)
    mode = draw(st.integers(0, 3))
    if mode == 0:
        nm = draw(st.integers(1, 5))
        mods = [[draw(ov), draw(ov)] for _ in range(nm)]
        vec = [draw(ov), draw(ov)]
    else:
        # a complete chain over distinct overhangs, then perturbations
        path = draw(st.lists(ov, min_size=2, max_size=min(6, len(alpha)), unique=True))
        vec = [path[0], path[-1]]
        mods = [[path[i], path[i + 1]] for i in range(len(path) - 1)]
        for _ in range(draw(st.integers(0, 3))):
            op = draw(st.integers(0, 6))
            if op == 0:                                   # leftover module
                mods.append([draw(ov), draw(ov)])
            elif op == 1 and len(mods) > 1:               # drop the j-th link
                mods.pop(draw(st.integers(0, len(mods) - 1)))
            elif op == 2:                                 # duplicate a start
                j = draw(st.integers(0, len(mods) - 1))
                mods.append([mods[j][0], draw(ov)])
            elif op == 3:                                 # reverse-complement a start
                j = draw(st.integers(0, len(mods) - 1))
                mods.append([dna.rc(mods[j][0]), draw(ov)])
            elif op == 4:                                 # cycle not through up(v)
                j = draw(st.integers(0, len(mods) - 1))
                mods[j][1] = mods[draw(st.integers(0, j))][0]
            elif op == 5:                                 # vector overhangs coincide
                vec[1] = vec[0]
            else:                                         # early return to up(v)
                j = draw(st.integers(0, len(mods) - 1))
                mods[j][1] = vec[1]
    mods = mods[:6]
    nm = len(mods)
    orders = [list(draw(st.permutations(list(range(nm))))) for _ in range(2)]
    spec = {"enzyme": ename, "vector": vec, "modules": mods, "orders": orders}
    ids = draw(st.sampled_from([None, None, None, "same", "default"]))
    if ids:
        spec["ids"] = ids
    return spec


def strategies(tier):
    return {"graph": (_graph_specs(), 600 if tier == "quick" else 12000)}
