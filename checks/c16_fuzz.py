#!/venv/bin/python
# coding: utf-8
"""Secondary engine for C16 (thorough tier): coverage-guided fuzzing with
atheris/libFuzzer driving the same Hypothesis strategy and the same oracle
through ``fuzz_one_input``.

usage: c16_fuzz.py <outdir> [libFuzzer flags, e.g. -runs=200000 -seed=7]

A violating spec is written to <outdir>/violation.json before the exception
escapes (libFuzzer then stops); <outdir>/stats.json holds the number of
property bodies completed.  The parent (checks/c16.py) replays the spec through
the plain oracle, so the fuzzer is only a search engine, never the judge.
"""
import json
import os
import sys

HERE = os.path.dirname(os.path.dirname(os.path.abspath(__file__)))
sys.path.insert(0, HERE)
sys.path.insert(1, os.path.join(HERE, ".deps"))
sys.dont_write_bytecode = True


def main():
    outdir = sys.argv[1]
    os.makedirs(outdir, exist_ok=True)
    import atheris
    from vlib import boot
    with atheris.instrument_imports(include=["moclo"]):
        boot.boot()
        import moclo.regex  # noqa
        import moclo.record  # noqa
    from hypothesis import HealthCheck, given, settings
    from vlib.runner import Ctx, Violation
    from checks import c16

    ctx = Ctx("C16", "thorough", 0, {})
    state = {"n": 0}

    @settings(database=None, deadline=None, suppress_health_check=list(HealthCheck))
    @given(c16._search_specs())
    def prop(spec):
        try:
            c16.check(spec, ctx)
        except Violation as v:
            with open(os.path.join(outdir, "violation.json"), "w") as fh:
                json.dump({"tag": v.tag, "message": v.message, "spec": spec}, fh)
            _stats()
            raise
        state["n"] += 1
        if state["n"] % 500 == 0:
            _stats()

    def _stats():
        with open(os.path.join(outdir, "stats.json"), "w") as fh:
            json.dump({"bodies": state["n"], "evaluations": ctx.evaluations,
                       "wrapped": ctx.hist.get("wrapped", 0),
                       "nontrivial": len(ctx.nontrivial)}, fh)

    argv = [sys.argv[0]] + sys.argv[2:]
    atheris.Setup(argv, prop.hypothesis.fuzz_one_input)
    try:
        atheris.Fuzz()
    finally:
        _stats()


if __name__ == "__main__":
    main()
