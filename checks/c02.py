# coding: utf-8
"""C02 -- a plasmid has no origin: typing and assembly are rotation-invariant."""
import sys

from hypothesis import strategies as st

from vlib import dna, gen, kits, plasmid, registries
from vlib.runner import Violation, run_body, sut
from checks import c01

ID = "C02"
LEVEL = "exploration"
TECHNIQUE = ("property-based metamorphic testing (Hypothesis) sweeping ALL rotations "
             "of generated structure instances, plus enumeration of rotations of every "
             "bundled registry plasmid; uniqueness of the structure occurrence decided "
             "by an independent reference search")
RULE = ("(a) generated instances (<= 150 nt) of the 85 kit classes, generic classes "
        "over the 58 enzymes and user-defined parts with drawn IUPAC signatures, "
        "optionally mutated; (b) every plasmid of the YTK/PTK/CIDAR/EcoFlex/Plant "
        "registries with the class its registry assigns; (c) C01-style assemblies "
        "with one participant rotated; (d) canonical assemblies of registry plasmids "
        "(C19's overhang-graph search: YTK, PTK+YTK, CIDAR, EcoFlex, Plant) with each "
        "participant in turn rotated by the real >> to origins on both flanks and in "
        "the middle of its structure and to drawn origins. Cases whose reference search (dna.ref_all_"
        "starts) does not find exactly one structure start are counted and skipped. "
        "Oracle: the answers at rotation 0: is_valid, overhang_start, overhang_end, "
        "target, placeholder must be identical at (a) every rotation 1..n-1, (b) "
        "quick: the rotations putting the origin on each of the first/last 24 "
        "positions of the matched region + 8 drawn ones, thorough: every rotation; "
        "(c) canonical product equal. Rotated records are built from the rotated "
        "string and, for a drawn subset, with the real >> operator. Non-trivial = a "
        "rotation whose origin falls strictly inside the matched region; distinct = "
        "distinct (record, class, rotation).")
ASSUMPTIONS = [
    "exactly one occurrence = exactly one start position at which the reference regex matches on the circle",
    "registry plasmids are taken with the class their registry assigns",
]
EXHAUSTIVE_NOTE = ("all n rotations of every generated instance; thorough tier: all "
                   "rotations of all 362 registry plasmids")
LEVEL_TEXT = ("Exploration: all rotations of each sampled small record are enumerated; "
              "registry plasmids get every structure-flank rotation in the quick tier "
              "and every rotation in the thorough tier.")
LEVEL_NOTE = "Trusted: dna.rot / ref_all_starts; rotation 0 of the implementation is the reference answer (C04/C05 decide its correctness)."
WALL_CAP = {"quick": 280, "thorough": 5400}


_ALIVE = []


def answers(cls, word, real_from=None, k=0, keep=False):
    from Bio.Seq import Seq
    from moclo.record import CircularRecord
    if real_from is not None:
        r = real_from >> k
    else:
        r = CircularRecord(Seq(word), id="x")
    ent = cls(r)
    if keep:
        # the unrotated wrapper stays alive while the rotated copies are
        # queried, as it does in a program that holds on to its parts
        _ALIVE.append(ent)
    ok = ent.is_valid()
    if not ok:
        return (False,)
    out = [True, str(ent.overhang_start()), str(ent.overhang_end()), str(ent.target_sequence().seq)]
    if kits.role_of(cls) == "vector":
        out.append(str(ent.placeholder_sequence().seq))
    return tuple(out)


def sweep(cls, word, ks, ctx, spec_base, what, use_real=False):
    from Bio.Seq import Seq
    from moclo.record import CircularRecord
    n = len(word)
    pattern = cls.structure()
    starts = dna.ref_all_starts(pattern, word)
    if len(starts) != 1:
        ctx.event("skipped:%d-occurrences" % min(len(starts), 2))
        return 0
    ref = dna.ref_search(pattern, word, True)
    ms, me = ref.start, ref.end
    del _ALIVE[:]
    base = sut(answers, cls, word, None, 0, True)
    real0 = CircularRecord(Seq(word), id="x") if use_real else None
    nt = 0
    for k in ks:
        k %= n
        w = dna.rot(word, k)
        got = sut(answers, cls, w)
        if got != base:
            raise Violation("ROTATION:" + _field(base, got),
                            "%s %s on %r: rotated by %d answers %r, unrotated %r"
                            % (what, cls.__name__, word if n < 300 else word[:60] + "...", k,
                               _brief(got), _brief(base)))
        if use_real:
            got2 = sut(answers, cls, None, real0, k)
            if got2 != base:
                raise Violation("ROTATION-REAL:" + _field(base, got2),
                                "%s %s: (r >> %d) answers %r, unrotated %r"
                                % (what, cls.__name__, k, _brief(got2), _brief(base)))
        origin = (n - k) % n       # old position that becomes the new origin
        inside = 0 < (origin - ms) % n < (me - ms)
        if inside:
            nt += 1
            ctx.nontrivial.add(hash((what, spec_base, k)) & 0xFFFFFFFFFFFFFFFF)
    ctx.event("rotations", len(ks))
    ctx.event("rotations-origin-in-structure", nt)
    ctx.event("accepted-records" if base[0] else "rejected-records")
    return nt


def _field(a, b):
    names = ["is_valid", "overhang_start", "overhang_end", "target", "placeholder"]
    if len(a) != len(b):
        return "is_valid"
    for i, (x, y) in enumerate(zip(a, b)):
        if x != y:
            return names[i]
    return "?"


def _brief(t):
    return tuple(x if not isinstance(x, str) or len(x) < 50 else x[:47] + "..." for x in t)


def check(spec, ctx):
    kind = spec["kind"]
    if kind == "inst":
        cls, word, word0, groups = kits.build_instance(spec["inst"])
        n = len(word)
        if n > 220:
            ctx.event("skipped:too-long")
            ctx.note(spec, False)
            return
        nt = sweep(cls, word0, range(n), ctx, spec["inst"]["cls"] + word0, "instance", spec.get("real", False))
        ctx.note(spec, nt > 0, ["inst:" + spec["inst"]["cls"].split(":")[0].split(".")[0]], sample=True)
    elif kind == "registry":
        items = {i[0]: i for i in registries.items(spec["reg"])}
        key, cls, word, record = items[spec["id"]]
        nt = sweep(cls, word, spec["ks"], ctx, spec["reg"] + spec["id"], "registry %s/%s" % (spec["reg"], key))
        ctx.note(spec, nt > 0, ["registry:" + spec["reg"]], sample=len(spec["ks"]) < 100)
    elif kind == "reg-assembly":
        from checks import c19
        world = c19._world(spec["reg"])
        vec = world["vectors"][spec["vector"]]
        mods = [world["modules"][k] for k in spec["path"]]
        ents = [vec] + mods
        base = dna.canon(str(sut(c19._assemble, vec, mods).seq))
        who = spec["who"] % len(ents)
        ent = ents[who]
        n = len(ent.record.seq)
        ref = dna.ref_search(type(ent).structure(), str(ent.record.seq), True)
        nt = 0
        for k in spec["ks"]:
            k %= n
            rotated = type(ent)(sut(lambda: ent.record >> k))
            ents2 = list(ents)
            ents2[who] = rotated
            p = sut(c19._assemble, ents2[0], ents2[1:])
            if dna.canon(str(p.seq)) != base:
                raise Violation("ROTATION:product", "%s assembly %s + %r: rotating %s by %d (real >>) "
                                "changes the product" % (spec["reg"], spec["vector"], spec["path"],
                                                         ent.record.id, k))
            origin = (n - k) % n
            if ref is not None and 0 < (origin - ref.start) % n < (ref.end - ref.start):
                nt += 1
        ctx.event("registry-assembly-rotations", len(spec["ks"]))
        ctx.note(spec, nt > 0, ["reg-assembly:" + spec["reg"]])
    else:
        a = spec["assembly"]
        p0, w0, bv, bms = c01.assemble(a)
        base = dna.canon(str(p0.seq))
        who = spec["who"] % (len(bms) + 1) - 1
        b = bv if who == -1 else bms[who]
        nt = 0
        for k in spec["ks"]:
            p, w, bv2, bms2 = c01.assemble(a, (who, k))
            if dna.canon(str(p.seq)) != base:
                raise Violation("ROTATION:product", "assembly (%s) with participant %d rotated by %d "
                                "gives another product" % (a["enzyme"], who, k))
            b2 = bv2 if who == -1 else bms2[who]
            if b2.origin_inside_structure():
                nt += 1
        ctx.event("assembly-rotations", len(spec["ks"]))
        ctx.note(spec, nt > 0, ["assembly"])


# --------------------------------------------------------------------------

def _lcg(seed):
    x = (seed * 2654435761 + 1013904223) & 0x7FFFFFFF
    while True:
        x = (x * 1103515245 + 12345) & 0x7FFFFFFF
        yield x


def exhaustive_tasks(tier):
    tasks = [[reg, [], "assemblies"] for reg in registries.NAMES]
    for reg in registries.NAMES:
        ids = [i[0] for i in registries.items(reg)]
        if tier == "quick":
            chunk = 12
            for i in range(0, len(ids), chunk):
                tasks.append([reg, ids[i:i + chunk], "flanks"])
        else:
            for i in ids:
                tasks.append([reg, [i], "all"])
    return tasks


def _registry_assemblies(reg, ctx):
    """Canonical registry assemblies (C19's search) with each participant in
    turn rotated, with the real >>, to origins on both flanks of its structure
    and to drawn origins."""
    from checks import c19
    mod = sys.modules[__name__]
    world = c19._world(reg)
    rnd = _lcg(ctx.seed + 17)
    nvec = 0
    for vkey in sorted(world["vectors"]):
        vec = world["vectors"][vkey]
        paths, bytype = c19._type_paths(world, vec, 2 if ctx.tier == "quick" else 12)
        if not paths:
            continue
        nvec += 1
        if nvec > (1 if ctx.tier == "quick" else 4):
            break
        for tp in paths:
            path = [bytype[t][next(rnd) % len(bytype[t])] for t in tp]
            ents = [vec] + [world["modules"][k] for k in path]
            for who, ent in enumerate(ents):
                word = str(ent.record.seq)
                n = len(word)
                ref = dna.ref_search(type(ent).structure(), word, True)
                ks = [next(rnd) % n for _ in range(2)]
                if ref is not None:
                    for pos in (ref.start + 1, ref.start + 8, ref.end - 8, ref.end - 1,
                                (ref.start + ref.end) // 2):
                        ks.append((n - pos) % n)
                run_body(mod, {"kind": "reg-assembly", "reg": reg, "vector": vkey, "path": path,
                               "who": who, "ks": sorted(set(ks))}, ctx)


def run_exhaustive(arg, ctx):
    mod = sys.modules[__name__]
    reg, ids, mode = arg
    if mode == "assemblies":
        return _registry_assemblies(reg, ctx)
    items = {i[0]: i for i in registries.items(reg)}
    rnd = _lcg(ctx.seed)
    for key in ids:
        _, cls, word, record = items[key]
        n = len(word)
        if mode == "all":
            ks = list(range(n))
        else:
            ref = dna.ref_search(cls.structure(), word, True)
            ks = []
            if ref is not None:
                for d in range(0, 25):
                    for p in (ref.start + d, ref.end - d):
                        ks.append((n - p) % n)
            ks += [next(rnd) % n for _ in range(8)]
            ks = sorted(set(ks))
        run_body(mod, {"kind": "registry", "reg": reg, "id": key, "ks": ks}, ctx)


_IUPAC_SIG = "ACGTACGTACGTRYSWKMBDHVN"


@st.composite
def _inst_specs(draw):
    style = draw(st.integers(0, 9))
    if style <= 4:
        name = draw(st.sampled_from(kits.kit_class_names()))
    elif style <= 7:
        e = draw(plasmid.enzyme_strategy())
        name = "gen:%s:%s" % (draw(st.sampled_from("MV")), e)
    else:
        e = draw(plasmid.enzyme_strategy())
        k = dna.geometry(dna.enzyme_by_name(e)).k
        sig = st.text(alphabet=_IUPAC_SIG, min_size=k, max_size=k)
        name = "part:%s:%s:%s:%s" % (draw(st.sampled_from("MV")), e, draw(sig), draw(sig))
    inst = draw(kits.instance_spec(name, max_star=20, max_b=25, min_b=2,
                                   n_mut=(0, 0) if draw(st.integers(0, 2)) else (1, 1)))
    inst["rot"] = 0
    return {"kind": "inst", "inst": inst, "real": draw(st.integers(0, 3)) == 0}


@st.composite
def _asm_specs(draw):
    a = draw(plasmid.assembly_spec(max_chain=3, max_seg=20))
    return {"kind": "assembly", "assembly": a, "who": draw(st.integers(0, 3)),
            "ks": draw(st.lists(st.integers(0, 200), min_size=3, max_size=10))}


def strategies(tier):
    if tier == "quick":
        return {"inst": (_inst_specs(), 150), "asm": (_asm_specs(), 80)}
    return {"inst": (_inst_specs(), 1500), "asm": (_asm_specs(), 1500)}
