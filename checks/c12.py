# coding: utf-8
"""C12 -- strand symmetry: reverse-complemented inputs give the reverse complement."""
import sys
import warnings

from vlib import dna, kits, plasmid, registries
from vlib.runner import Violation, run_body, sut
from checks import c01

ID = "C12"
LEVEL = "exploration"
TECHNIQUE = ("property-based metamorphic testing (Hypothesis) with a string-level "
             "reverse complement; exhaustive pass over the registry plasmids that "
             "carry exactly two sites of their cutter")
RULE = ("(a) C01's assemblies (all enzymes, chains 1-5, drawn rotations, junction "
        "overhangs pairwise non-colliding -- palindromic ones allowed -- so the "
        "mirrored assembly is unambiguous too): every participant r is checked against "
        "rc(r) -- built from the reverse-complemented string and also with the real "
        "reverse_complement(): valid iff valid, overhang_start(rc r) = rc(overhang_"
        "end(r)) and vice versa, target body target[k:] = rc of the original body; "
        "then canon(assemble(rc inputs)) = canon(rc(assemble(inputs))). (b) every "
        "registry plasmid carrying exactly two sites of its class's cutter, through "
        "the generic class of the same role and enzyme. Non-trivial = valid case; "
        "distinct = distinct spec.")
ASSUMPTIONS = [
    "rc is dna.rc on plain strings (own complement table)",
    "registry plasmids with more or fewer than two cutter sites are outside the statement and skipped (counted)",
]
EXHAUSTIVE_NOTE = "all registry plasmids with exactly two sites of their cutter (5 registries)"
LEVEL_TEXT = ("Exploration: sampled well-formed plasmids/assemblies over all enzymes plus "
              "all eligible registry plasmids; the relation cross-checks the upstream "
              "and downstream halves of every derived structure against each other.")
LEVEL_NOTE = "Trusted: dna.rc; G-GEN builder."
WALL_CAP = {"quick": 240, "thorough": 2400}


def _answers(cls, rec_):
    ent = cls(rec_)
    if not ent.is_valid():
        return None
    return (str(ent.overhang_start()).upper(), str(ent.overhang_end()).upper(),
            str(ent.target_sequence().seq).upper())


def relate(cls, word, k, what):
    from Bio.Seq import Seq
    from moclo.record import CircularRecord
    r = CircularRecord(Seq(word), id="x")
    a = sut(_answers, cls, r)
    for how, r2 in (("string rc", CircularRecord(Seq(dna.rc(word)), id="x")),
                    ("reverse_complement()", sut(r.reverse_complement))):
        b = sut(_answers, cls, r2)
        if (a is None) != (b is None):
            raise Violation("VALID-IFF", "%s %s: valid=%s but its reverse complement (%s) valid=%s; %r"
                            % (what, cls.__name__, a is not None, how, b is not None, word[:200]))
        if a is None:
            continue
        if b[0] != dna.rc(a[1]) or b[1] != dna.rc(a[0]):
            raise Violation("OVERHANGS", "%s %s: overhangs %r/%r, reverse complement (%s) reports %r/%r, "
                            "expected %r/%r" % (what, cls.__name__, a[0], a[1], how, b[0], b[1],
                                                dna.rc(a[1]), dna.rc(a[0])))
        if b[2][k:] != dna.rc(a[2][k:]):
            raise Violation("TARGET-BODY", "%s %s: target body of the reverse complement (%s) is not the "
                            "reverse complement of the body" % (what, cls.__name__, how))
    return a is not None


def check(spec, ctx):
    if spec["kind"] == "registry":
        items = {i[0]: i for i in registries.items(spec["reg"])}
        key, cls, word, record = items[spec["id"]]
        g = dna.geometry(cls.cutter)
        if dna.count_sites(word, g) != 2:
            ctx.event("registry-skipped:sites!=2")
            ctx.note(spec, False)
            return
        M, V = plasmid.generic_classes(cls.cutter)
        G = M if kits.role_of(cls) == "module" else V
        ok = relate(G, word, g.k, "registry %s/%s" % (spec["reg"], key))
        ctx.note(spec, ok, ["registry:" + spec["reg"], "valid" if ok else "invalid"])
        return
    a = spec["assembly"]
    V, M, bv, bms = c01.prepare(a)
    g = bv.g
    relate(V, bv.seq, g.k, "vector")
    for b in bms:
        relate(M, b.seq, g.k, "module")
    product, warns = sut(c01.run_assembly, V, M, bv, bms, a["order"])

    def mirrored(real):
        from Bio.Seq import Seq
        from moclo.record import CircularRecord
        if real:
            # the records reverse_complement() itself returns (default ids)
            vec = V(bv.record().reverse_complement())
            mods = [M(b.record().reverse_complement()) for b in bms]
        else:
            vec = V(CircularRecord(Seq(dna.rc(bv.seq)), id="v"))
            mods = [M(CircularRecord(Seq(dna.rc(b.seq)), id=b.id)) for b in bms]
        with warnings.catch_warnings():
            warnings.simplefilter("ignore")
            return vec.assemble(*[mods[i] for i in a["order"]])
    for real in (False, True):
        p2 = sut(mirrored, real)
        if dna.canon(str(p2.seq)) != dna.canon(dna.rc(str(product.seq))):
            raise Violation("ASSEMBLY", "%s, %d modules: assembling the reverse complements (%s) does not "
                            "give the reverse complement of the product" % (
                                a["enzyme"], len(bms), "reverse_complement()" if real else "string rc"))
    wrapped = sum(1 for b in [bv] + bms if b.origin_inside_structure())
    ctx.note(spec, True, ["gen", "geometry:%d/%d/%d" % g.key] + (["wrapped"] if wrapped else []))


def exhaustive_tasks(tier):
    return list(registries.NAMES)


def run_exhaustive(reg, ctx):
    mod = sys.modules[__name__]
    for key, cls, word, record in registries.items(reg):
        run_body(mod, {"kind": "registry", "reg": reg, "id": key}, ctx)


def strategies(tier):
    s = plasmid.assembly_spec(max_chain=5, max_seg=30, allow_palindromes=True, strict_last=True).map(
        lambda a: {"kind": "gen", "assembly": a})
    return {"gen": (s, 400 if tier == "quick" else 8000)}
