# coding: utf-8
"""C11 -- products of one level are valid modules of the next level."""
import warnings

from hypothesis import strategies as st

from vlib import dna, gen, kits, plasmid
from vlib.runner import Reject, Violation, sut

ID = "C11"
LEVEL = "exploration"
TECHNIQUE = ("property-based testing (Hypothesis) over the 8 (vector, module, next-level) "
             "class triples of the kits: generated vector instances of the hand-written "
             "structures, generated insert chains, next-level typing of the rotated "
             "product checked against cut events found by string search, followed by a "
             "real second-level assembly checked against the closed form")
RULE = ("triple drawn from: CIDAR entry/cassette/device vectors, EcoFlex cassette/device "
        "vectors, MoClo entry/cassette vectors, YTK entry vector with a YTKProduct. "
        "Vector = generated instance of the vector class's structure (placeholder and "
        "backbone drawn, group 1/3 forced to the chain's end overhangs, stray sites of "
        "both enzymes removed from free letters); inserts = chain of 1-4 modules of the "
        "kit's module class (YTK: one YTKProduct instance), targets >= 2 nt, no site of "
        "either enzyme (YTK: the product's sticky ends are read off an instance of "
        "YTKProduct's structure); all at drawn rotations. Cases whose expected product "
        "(closed form) contains MORE than two next-level sites (one arisen at a "
        "junction) are counted and skipped. "
        "Oracle: assemble succeeds and equals the closed form; Next(product >> k) is "
        "valid for drawn k; its overhangs are the texts at the two next-level cut "
        "events of the product (forward site -> start, reverse site -> end); its "
        "target contains up(m_1).t_1...up(m_L).t_L (YTK: the insert contains the "
        "entry's overhang+target+overhang); then the product assembles into a "
        "generated next-level vector and the result equals the closed form. "
        "Compositions: CIDAR entries -> cassettes -> device, MoClo entries -> cassette, "
        "EcoFlex cassettes -> device: each level's real product (rotated) is typed by "
        "the next class, used as the first insert of a generated instance of the next "
        "level's kit vector together with generated companions, and the clauses are "
        "asserted again on that product. "
        "Non-trivial = chain >= 2, origin of the rotated product inside the insert, or a "
        "composition that reached depth >= 2; "
        "distinct = distinct spec.")
ASSUMPTIONS = [
    "YTK: a YTKProduct carries the BsaI sites inside its own target, so containment is checked in the direction the design allows; its template (the insert proper) is >= 2 nt",
    "the precondition 'no next-level site other than the two the design provides' is evaluated on the closed-form product by string search",
]
LEVEL_TEXT = ("Exploration: sampled vectors/insert chains per triple (every triple hit "
              "hundreds of times per run), two real assembly levels per case.")
LEVEL_NOTE = "Trusted: dna.cut_events, G-STRUCT instance generator, closed form of C01."
WALL_CAP = {"quick": 260, "thorough": 3000}

TRIPLES = [
    ("cidar.CIDAREntryVector", "cidar.CIDARProduct", "cidar.CIDAREntry"),
    ("cidar.CIDARCassetteVector", "cidar.CIDAREntry", "cidar.CIDARCassette"),
    ("cidar.CIDARDeviceVector", "cidar.CIDARCassette", "cidar.CIDARDevice"),
    ("ecoflex.EcoFlexCassetteVector", "ecoflex.EcoFlexEntry", "ecoflex.EcoFlexCassette"),
    ("ecoflex.EcoFlexDeviceVector", "ecoflex.EcoFlexCassette", "ecoflex.EcoFlexDevice"),
    ("moclo.MoCloEntryVector", "moclo.MoCloProduct", "moclo.MoCloEntry"),
    ("moclo.MoCloCassetteVector", "moclo.MoCloEntry", "moclo.MoCloCassette"),
    ("ytk.YTKEntryVector", "ytk.YTKProduct", "ytk.YTKEntry"),
]


class Level(object):
    """Everything built for one first-level assembly of a triple."""


def build_level(spec, real_first=None):
    """real_first = (sequence, fragment): a real lower-level product that takes
    the place of the first generated insert (multi-level compositions)."""
    vname, mname, nname = TRIPLES[spec["triple"]]
    VC, MC, NC = (kits.resolve_class(x) for x in (vname, mname, nname))
    g1 = dna.geometry(VC.cutter)
    g2 = dna.geometry(NC.cutter)
    lv = Level()
    lv.VC, lv.MC, lv.NC, lv.g1, lv.g2 = VC, MC, NC, g1, g2
    chain = list(spec["chain"])
    L = len(chain) - 1
    v = spec["vector"]
    ytk_inst = None
    if mname == "ytk.YTKProduct":
        # the product's sticky ends are whatever its class's structure makes
        # them (not assumed): instantiate first, then read the chain off it
        m = spec["modules"][0]
        w, gr = kits.struct_word(MC.structure(), m["filler"], m["stars"], m["b"], [g1, g2])
        ytk_inst = (w, gr)
        chain = [w[gr[0][0]:gr[0][1]], w[gr[2][0]:gr[2][1]]]
        L = 1
    word, groups = kits.struct_word(VC.structure(), v["filler"], v["stars"], v["b"], [g1, g2],
                                    force={1: chain[0], 3: chain[L]})
    n = len(word)
    (a1, e1), (a2, e2), (a3, e3) = groups
    lv.vword = word
    lv.vrot = v.get("rot", 0) % n
    lv.vseq = dna.rot(word, lv.vrot)
    # retained fragment: from the start of group 3 around to the start of group 1
    lv.vfrag = dna.circ_slice(word, a3, (a1 - a3) % n)
    lv.mods = []
    frags = []
    for i, m in enumerate(spec["modules"]):
        if i == 0 and real_first is not None:
            lv.mods.append(real_first[0])
            frags.append(real_first[1])
            continue
        if mname == "ytk.YTKProduct":
            w, gr = ytk_inst
            (b1, f1), (b2, f2), (b3, f3) = gr
            frag = w[b1:f2]
            seq = dna.rot(w, m.get("rot", 0) % len(w))
        else:
            b = plasmid.build_module(g1, dict(m, o5=chain[i], o3=chain[i + 1], id="ins%d" % i), also=[g2])
            frag = b.fragment
            seq = b.seq
        lv.mods.append(seq)
        frags.append(frag)
    lv.insert = "".join(frags).upper()
    lv.expected = (lv.vfrag + "".join(frags)).upper()
    return lv


def _rec(seq, rid):
    from Bio.Seq import Seq
    from moclo.record import CircularRecord
    return CircularRecord(Seq(seq), id=rid, name=rid)


def _assemble(vec, mods, **kw):
    with warnings.catch_warnings():
        warnings.simplefilter("ignore")
        return vec.assemble(*mods, **kw)


def first_level(spec, lv):
    from moclo import errors
    vec = lv.VC(_rec(lv.vseq, "vec"))
    mods = [lv.MC(_rec(s, "ins%d" % i)) for i, s in enumerate(lv.mods)]
    for ent, what in [(vec, "vector")] + [(m, "insert") for m in mods]:
        if not sut(ent.is_valid):
            raise Reject("generated %s not accepted by its class" % what)
    order = spec.get("order") or list(range(len(mods)))
    try:
        return sut(_assemble, vec, [mods[i % len(mods)] for i in order] if len(set(
            i % len(mods) for i in order)) == len(mods) else mods,
            id=spec.get("id", "level1"), name=spec.get("id", "level1"), allowed=(errors.MocloError,))
    except errors.MocloError as e:
        raise Violation("LEVEL1-FAILS", "%s: first-level assembly raised %s: %s"
                        % (TRIPLES[spec["triple"]][0], type(e).__name__, e))


COMPOSITIONS = [[0, 1, 2], [0, 1], [1, 2], [5, 6], [3, 4]]


def next_level_view(P, g2):
    """(a1, a2) = starts of the forward / reverse next-level cut events, or None."""
    events = dna.cut_events(P, g2)
    fwd = [a for a, s in events if s == 1]
    rev = [a for a, s in events if s == -1]
    if len(fwd) != 1 or len(rev) != 1:
        return None
    return fwd[0], rev[0]


def judge_next(lv, product, tname, ks):
    """The statement's clauses for one product; -> (start overhang, end overhang, fragment)."""
    P = str(product.seq).upper()
    n = len(P)
    view = next_level_view(P, lv.g2)
    if view is None:
        raise Violation("NEXT-LEVEL-REJECTS", "%s: the product does not carry one forward and one "
                        "reverse %s site" % (tname, lv.g2.name))
    a1, a2 = view
    k2 = lv.g2.k
    want_start, want_end = dna.circ_slice(P, a1, k2), dna.circ_slice(P, a2, k2)
    for k in [0] + list(ks or []):
        k %= n
        nxt = lv.NC(sut(lambda: product >> k))
        if not sut(nxt.is_valid):
            raise Violation("NEXT-LEVEL-REJECTS", "%s: %s rejects the product rotated by %d (%d nt)"
                            % (tname, lv.NC.__name__, k, n))
        os_, oe = str(sut(nxt.overhang_start)).upper(), str(sut(nxt.overhang_end)).upper()
        if os_ != want_start or oe != want_end:
            raise Violation("NEXT-LEVEL-OVERHANGS", "%s: %s reports overhangs %s/%s, the %s cut events "
                            "give %s/%s" % (tname, lv.NC.__name__, os_, oe, lv.g2.name, want_start, want_end))
        target = str(sut(nxt.target_sequence).seq).upper()
        if lv.insert not in target:
            raise Violation("NEXT-LEVEL-TARGET", "%s: target of %s (%d nt) does not contain the whole "
                            "insert (%d nt)" % (tname, lv.NC.__name__, len(target), len(lv.insert)))
    return want_start, want_end, dna.circ_slice(P, a1, (a2 - a1) % n)


def check_composition(spec, ctx):
    """Entries -> cassettes -> device: every level's product is typed by the
    next level's class and used as a real insert of the next level's vector."""
    triples = COMPOSITIONS[spec["composition"] % len(COMPOSITIONS)]
    real = None
    depth = 0
    prev_overhangs = None
    for li, t in enumerate(triples):
        lspec = dict(spec["levels"][li], triple=t)
        tname = TRIPLES[t][0].split(".")[1]
        if real is not None:
            chain = [prev_overhangs[0], prev_overhangs[1]] + [o for o in lspec["chain"][2:]]
            ok = all(not plasmid.collides(a, b) for i, a in enumerate(chain) for b in chain[i + 1:]) \
                and all(dna.rc(o) != o for o in chain)
            if not ok:
                chain = chain[:2]
                if plasmid.collides(chain[0], chain[1]) or dna.rc(chain[0]) == chain[0]:
                    raise Reject("composition-chain-collides")
            lspec["chain"] = chain
            lspec["modules"] = (lspec["modules"] * 4)[:len(chain) - 1]
            lspec["order"] = list(range(len(chain) - 1))
        lv = build_level(lspec, real_first=real)
        if dna.count_sites(lv.expected, lv.g2) > 2:
            ctx.event("skipped:extra-next-level-site")
            break
        product = first_level(dict(lspec, id="L%d" % li), lv)
        if not dna.circ_equal(str(product.seq), lv.expected):
            raise Violation("LEVEL1-PRODUCT", "%s (level %d of a composition): product is not the closed form"
                            % (tname, li))
        os_, oe, frag = judge_next(lv, product, tname + " (composition level %d)" % li, lspec.get("ks"))
        depth += 1
        k = (lspec.get("ks") or [0])[0] % len(product.seq)
        real = (str((product >> k).seq), frag)
        prev_overhangs = (os_, oe)
        if os_ == oe:
            break
    ctx.note(spec, depth >= 2, ["composition:%s" % "-".join(map(str, triples)), "depth:%d" % depth])


def check(spec, ctx):
    from moclo import errors
    if spec.get("kind") == "composition":
        return check_composition(spec, ctx)
    lv = build_level(spec)
    tname = TRIPLES[spec["triple"]][0].split(".")[1]
    if dna.count_sites(lv.expected, lv.g2) > 2:
        # an extra next-level site (arisen at a junction): outside the statement
        ctx.event("skipped:extra-next-level-site")
        ctx.note(spec, False, ["skipped"])
        return
    product = first_level(spec, lv)
    P = str(product.seq).upper()
    if not dna.circ_equal(P, lv.expected):
        raise Violation("LEVEL1-PRODUCT", "%s: product is not the closed form" % tname)
    n = len(P)
    events = dna.cut_events(P, lv.g2)
    fwd = [a for a, s in events if s == 1]
    rev = [a for a, s in events if s == -1]
    if len(fwd) != 1 or len(rev) != 1:
        # the design must provide one forward and one reverse next-level site
        r0 = lv.NC(product)
        if not sut(r0.is_valid):
            raise Violation("NEXT-LEVEL-REJECTS", "%s: %s rejects the product: it carries %d forward and "
                            "%d reverse %s sites instead of the two the design provides"
                            % (tname, lv.NC.__name__, len(fwd), len(rev), lv.g2.name))
        raise Violation("NEXT-LEVEL-OVERHANGS", "%s: product accepted although it carries %d forward and "
                        "%d reverse %s sites" % (tname, len(fwd), len(rev), lv.g2.name))
    a1, a2 = fwd[0], rev[0]
    k2 = lv.g2.k
    want_start, want_end = dna.circ_slice(P, a1, k2), dna.circ_slice(P, a2, k2)
    inside_insert = False
    for k in [0] + list(spec.get("ks") or []):
        k %= n
        r = sut(lambda: product >> k)
        nxt = lv.NC(r)
        if not sut(nxt.is_valid):
            raise Violation("NEXT-LEVEL-REJECTS", "%s: %s rejects the product rotated by %d (%d nt, chain %d)"
                            % (tname, lv.NC.__name__, k, n, len(lv.mods)))
        os_, oe = str(sut(nxt.overhang_start)).upper(), str(sut(nxt.overhang_end)).upper()
        if os_ != want_start or oe != want_end:
            raise Violation("NEXT-LEVEL-OVERHANGS", "%s: %s reports overhangs %s/%s, the %s cut events "
                            "of the product give %s/%s" % (tname, lv.NC.__name__, os_, oe, lv.g2.name,
                                                          want_start, want_end))
        target = str(sut(nxt.target_sequence).seq).upper()
        if lv.NC.__name__ == "YTKEntry":
            if (os_ + target[k2:] + oe) not in lv.insert:
                raise Violation("NEXT-LEVEL-TARGET", "%s: entry overhang+target+overhang is not inside the insert" % tname)
        elif lv.insert not in target:
            raise Violation("NEXT-LEVEL-TARGET", "%s: target of %s (%d nt) does not contain the whole "
                            "insert (%d nt)" % (tname, lv.NC.__name__, len(target), len(lv.insert)))
        # origin inside the insert?
        pos = dna.circ_find_all(dna.rot(P, k), lv.insert)
        if any(p + len(lv.insert) > n for p in pos):
            inside_insert = True
    # second level
    second = False
    if want_start != want_end:
        M2, V2 = plasmid.generic_classes(lv.NC.cutter)
        v2 = spec.get("vector2") or {}
        try:
            bv2 = plasmid.build_vector(lv.g2, dict(v2, o_down=want_start, o_up=want_end, id="vec2"))
        except Reject:
            bv2 = None
        if bv2 is not None:
            k = (spec.get("ks") or [0])[0] % n
            nxt = lv.NC(product >> k)
            try:
                p2 = sut(_assemble, V2(bv2.record()), [nxt], allowed=(errors.MocloError,))
            except errors.MocloError as e:
                raise Violation("LEVEL2-FAILS", "%s: the product cannot be assembled at the next level: "
                                "%s: %s" % (tname, type(e).__name__, e))
            exp2 = bv2.fragment.upper() + dna.circ_slice(P, a1, (a2 - a1) % n)
            if not dna.circ_equal(str(p2.seq), exp2):
                raise Violation("LEVEL2-PRODUCT", "%s: second-level product is not the closed form" % tname)
            second = True
    classes = ["triple:" + tname, "chain:%d" % len(lv.mods)]
    if second:
        classes.append("second-level")
    if inside_insert:
        classes.append("origin-inside-insert")
    ctx.note(spec, len(lv.mods) >= 2 or inside_insert, classes)


@st.composite
def level_spec(draw, triple=None):
    t = draw(st.integers(0, len(TRIPLES) - 1)) if triple is None else triple
    vname, mname, nname = TRIPLES[t]
    VC = kits.resolve_class(vname)
    g1 = dna.geometry(VC.cutter)
    if mname == "ytk.YTKProduct":
        chain = [draw(gen.dna_text(2, 2)) + "GG", "GACC"]
        # the YTK product's template is the insert: at least two nucleotides
        mods = [{"filler": draw(gen.dna_text(8, 40)), "stars": [draw(st.integers(2, 30))],
                 "b": draw(gen.dna_text(0, 25)), "rot": draw(st.integers(0, 200))}]
    else:
        # the closing overhang only has to differ from the others: it may be the
        # reverse complement of a start overhang (also of the vector's other one)
        chain = draw(plasmid.clean_chain(g1.k, 4, allow_palindromes=False,
                                         strict_last=draw(st.booleans())))
        if draw(st.integers(0, 7)) == 0 and dna.rc(chain[0]) not in chain[:-1]:
            chain[-1] = dna.rc(chain[0])      # vector overhangs reverse-complementary
        mods = [draw(plasmid.module_body(g1, 30)) for _ in range(len(chain) - 1)]
    spec = {"triple": t, "chain": chain, "modules": mods,
            "vector": {"filler": draw(gen.dna_text(8, 40)), "stars": [draw(st.integers(0, 40))],
                       "b": draw(gen.dna_text(2, 40)), "rot": draw(st.integers(0, 300))},
            "order": list(draw(st.permutations(list(range(len(mods)))))),
            "ks": draw(st.lists(st.integers(0, 600), min_size=1, max_size=4)),
            "vector2": draw(plasmid.vector_body(dna.geometry(kits.resolve_class(nname).cutter), 25))}
    return spec


@st.composite
def composition_spec(draw):
    c = draw(st.integers(0, len(COMPOSITIONS) - 1))
    levels = [draw(level_spec(triple=t)) for t in COMPOSITIONS[c]]
    return {"kind": "composition", "composition": c, "levels": levels}


def strategies(tier):
    q = tier == "quick"
    return {"triple": (level_spec(), 250 if q else 5000),
            "composition": (composition_spec(), 60 if q else 1500)}
