#!/venv/bin/python
# coding: utf-8
"""Run checks against a seeded change in a scratch worktree of /repo.

    tools/killmatrix.py seeded/<id> [--checks C01,C02] [--tests] [--jobs N] [--tier quick]

Creates a git worktree of /repo's HEAD under /tmp/moclo-mut/<id>, applies
seeded/<id>/patch.diff, optionally runs the repository's test suite there,
runs the checks with MOCLO_REPO pointing at it (evidence and found replays go
to a scratch directory, never to /verif/evidence), writes
seeded/<id>/result.json and removes the worktree.
"""
import argparse
import json
import os
import re
import shutil
import subprocess
import sys
import time

HERE = os.path.dirname(os.path.dirname(os.path.abspath(__file__)))
ALL = ["C%02d" % i for i in range(1, 21)]


def sh(cmd, **kw):
    return subprocess.run(cmd, stdout=subprocess.PIPE, stderr=subprocess.STDOUT, **kw)


def main():
    ap = argparse.ArgumentParser()
    ap.add_argument("seeded")
    ap.add_argument("--checks", default=",".join(ALL))
    ap.add_argument("--tests", action="store_true")
    ap.add_argument("--jobs", type=int, default=16)
    ap.add_argument("--tier", default="quick")
    ap.add_argument("--seed", default="1")
    args = ap.parse_args()
    sdir = os.path.abspath(args.seeded)
    name = os.path.basename(sdir.rstrip("/"))
    root = "/tmp/moclo-mut"
    os.makedirs(root, exist_ok=True)
    wt = os.path.join(root, name)
    out = os.path.join(root, name + "-out")
    sh(["git", "-C", "/repo", "worktree", "remove", "--force", wt])
    shutil.rmtree(wt, ignore_errors=True)
    shutil.rmtree(out, ignore_errors=True)
    p = sh(["git", "-C", "/repo", "worktree", "add", "--detach", wt, "HEAD"])
    if p.returncode:
        print(p.stdout.decode())
        return 2
    result = {"id": name, "checks": {}, "when": time.strftime("%Y-%m-%d %H:%M:%S"),
              "repo_head": sh(["git", "-C", "/repo", "rev-parse", "--short", "HEAD"]).stdout.decode().strip()}
    try:
        demo = os.path.join(sdir, "demo.py")
        if os.path.exists(demo):
            # build registry archives in the worktree first (demos may load registries)
            sh(["/venv/bin/python", "-c", "import sys; sys.path.insert(0, %r); import os; os.environ['MOCLO_REPO']=%r; "
                "from vlib import boot; boot.ensure_registries()" % (HERE, wt)],
               env=dict(os.environ, MOCLO_REPO=wt))
            p = sh(["/venv/bin/python", demo, wt], cwd=root)
            result["demo_clean_exit"] = p.returncode
        p = sh(["git", "-C", wt, "apply", os.path.join(sdir, "patch.diff")])
        if p.returncode:
            print("patch does not apply:\n" + p.stdout.decode())
            result["error"] = "patch does not apply"
            return 2
        if os.path.exists(demo):
            p = sh(["/venv/bin/python", demo, wt], cwd=root)
            result["demo_mutant_exit"] = p.returncode
            result["demo_mutant_output"] = p.stdout.decode()[-600:]
            print("demo: clean exit=%s, mutant exit=%s" % (result.get("demo_clean_exit"), p.returncode))
        if args.tests:
            t0 = time.time()
            p = sh(["/venv/bin/python", "-m", "pytest", "-q", "-p", "no:cacheprovider", "--timeout=900",
                    "-x", "-q"], cwd=wt)
            tail = p.stdout.decode().strip().splitlines()[-1:]
            result["tests"] = {"exit": p.returncode, "summary": tail, "wall": round(time.time() - t0, 1)}
            print("tests:", p.returncode, tail)
        env = dict(os.environ, MOCLO_REPO=wt, VERIF_OUT=out, VERIF_SEED=args.seed,
                   VERIF_JOBS=str(args.jobs), PYTHONHASHSEED="0")
        for cid in args.checks.split(","):
            t0 = time.time()
            p = sh(["/venv/bin/python", os.path.join(HERE, "run_check.py"), cid, "--tier", args.tier], env=env)
            text = p.stdout.decode()
            tags = re.findall(r"^  \[([^\]]+)\]", text, re.M)
            result["checks"][cid] = {"exit": p.returncode, "tags": tags, "wall": round(time.time() - t0, 1)}
            print("%s exit=%d %s %.0fs" % (cid, p.returncode, tags[:4], time.time() - t0))
            sys.stdout.flush()
            if p.returncode == 2:
                result["checks"][cid]["log"] = text[-3000:]
        killed = [c for c, r in result["checks"].items() if r["exit"] == 1]
        result["killed_by"] = killed
        print("killed by:", killed)
    finally:
        with open(os.path.join(sdir, "result.json"), "w") as fh:
            json.dump(result, fh, indent=1)
        sh(["git", "-C", "/repo", "worktree", "remove", "--force", wt])
        shutil.rmtree(wt, ignore_errors=True)
        shutil.rmtree(out, ignore_errors=True)
        sh(["git", "-C", "/repo", "worktree", "prune"])
    return 0


if __name__ == "__main__":
    sys.exit(main())
