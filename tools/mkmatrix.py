#!/usr/bin/env python3
# coding: utf-8
"""Write meta.json for agent-written seeded changes and print the kill matrix
(markdown) from seeded/*/result.json."""
import json
import os
import re
import sys

HERE = os.path.dirname(os.path.dirname(os.path.abspath(__file__)))
SEEDED = os.path.join(HERE, "seeded")


def first_heading(notes):
    for line in notes.splitlines():
        line = line.strip().lstrip("#").strip()
        if line:
            return line
    return ""


def main():
    rows = []
    for name in sorted(os.listdir(SEEDED)):
        d = os.path.join(SEEDED, name)
        if not os.path.isdir(d):
            continue
        res = {}
        if os.path.exists(os.path.join(d, "result.json")):
            res = json.load(open(os.path.join(d, "result.json")))
        meta_path = os.path.join(d, "meta.json")
        if name.startswith("refactor"):
            notes = open(os.path.join(d, "notes.md")).read() if os.path.exists(os.path.join(d, "notes.md")) else ""
            meta = {
                "id": name, "breaks": "nothing (behaviour-preserving)",
                "origin": "written by an independent sub-agent that was given the texts of all twenty "
                          "properties and its own scratch worktree of /repo (nothing from /verif) and asked "
                          "for refactorings that keep every property true while changing incidental, "
                          "unconstrained behaviour; used to look for false alarms",
                "what": first_heading(notes),
                "needs_to_manifest": "n/a - every check must stay silent on this change",
                "demonstration": "notes.md argues property by property why all twenty still hold",
                "ran": "tools/killmatrix.py seeded/%s --tests" % name,
            }
        elif name.startswith(("agent-", "agent2-", "agent3-", "agent4-")):
            prop = name.split("-")[1]
            notes = open(os.path.join(d, "notes.md")).read() if os.path.exists(os.path.join(d, "notes.md")) else ""
            meta = {
                "id": name, "breaks": prop,
                "origin": "written by an independent sub-agent (round %s) that was given only the text of "
                          "property %s and its own scratch worktree of /repo (nothing from /verif)%s" % (
                              "4" if name.startswith("agent4-") else "3" if name.startswith("agent3-") else ("2" if name.startswith("agent2-") else "1"), prop,
                              "; round 2 was additionally given one-line summaries of the round-1 changes "
                              "(written by the round-1 agents) and asked for different, subtler mechanisms"
                              if name.startswith(("agent2-", "agent3-", "agent4-")) else ""),
                "what": first_heading(notes),
                "needs_to_manifest": "see notes.md (the sub-agent's own description)",
                "demonstration": "demo.py <checkout>: exits 0 on the clean tree, 1 with patch.diff applied",
                "ran": "tools/killmatrix.py seeded/%s --tests: scratch worktree of /repo HEAD, demo on the clean "
                       "worktree, git apply patch.diff, demo again, the repository's pytest suite, then every "
                       "check's quick tier with MOCLO_REPO pointing at the worktree" % name,
            }
        else:
            meta = json.load(open(meta_path)) if os.path.exists(meta_path) else {"id": name}
        if res:
            meta["confirmed"] = {
                "repo_head": res.get("repo_head"),
                "demo_exit_clean": res.get("demo_clean_exit"),
                "demo_exit_with_change": res.get("demo_mutant_exit"),
                "test_suite_with_change": (res.get("tests") or {}).get("summary"),
                "test_suite_exit": (res.get("tests") or {}).get("exit"),
            }
            meta["killed_by"] = res.get("killed_by", [])
            meta["violation_tags"] = {c: r["tags"] for c, r in res.get("checks", {}).items() if r["exit"] == 1}
        json.dump(meta, open(meta_path, "w"), indent=1)
        rows.append((name, meta.get("breaks", "?"), meta.get("what", ""), res))
    refactors = [r for r in rows if r[0].startswith("refactor")]
    rows = [r for r in rows if not r[0].startswith("refactor")]
    out = []
    _print = out.append
    _print("| seeded change | targets | what | suite passes | killed by (quick tier) |")
    _print("|---|---|---|---|---|")
    for name, prop, what, res in rows:
        checks = res.get("checks", {})
        killed = [c for c in sorted(checks) if checks[c]["exit"] == 1]
        errs = [c for c in sorted(checks) if checks[c]["exit"] == 2]
        t = res.get("tests")
        suite = "yes" if t and t.get("exit") == 0 else ("n/a" if not t else "NO")
        if name.startswith("orig-"):
            suite = "n/a"
        own = prop in killed
        k = ", ".join("**%s**" % c if c == prop else c for c in killed) or "**none (survives)**"
        if errs:
            k += " (harness error: %s)" % ", ".join(errs)
        what = re.sub(r"\s+", " ", what)[:110]
        _print("| %s | %s | %s | %s | %s |" % (name, prop, what.replace("|", "/"), suite, k))
    _print("")
    _print("Behaviour-preserving changes (every check must stay silent):")
    _print("")
    _print("| change | what changes observably | suite passes | checks raising an alarm |")
    _print("|---|---|---|---|")
    for name, prop, what, res in refactors:
        checks = res.get("checks", {})
        alarms = [c for c in sorted(checks) if checks[c]["exit"] == 1]
        errs = [c for c in sorted(checks) if checks[c]["exit"] == 2]
        t = res.get("tests")
        suite = "yes" if t and t.get("exit") == 0 else ("n/a" if not t else "NO")
        k = ", ".join(alarms) or "none"
        if errs:
            k += " (harness error: %s)" % ", ".join(errs)
        if len(checks) < 20:
            k += " (%d checks run)" % len(checks)
        _print("| %s | %s | %s | %s |" % (name, re.sub(r"\s+", " ", what)[:120].replace("|", "/"), suite, k))
    table = "\n".join(out)
    print(table)
    dpath = os.path.join(HERE, "DESIGN.md")
    text = open(dpath).read()
    b, e = "<!-- KILL-MATRIX:BEGIN -->", "<!-- KILL-MATRIX:END -->"
    if b in text and e in text:
        text = text[:text.index(b) + len(b)] + "\n" + table + "\n" + text[text.index(e):]
        open(dpath, "w").write(text)


if __name__ == "__main__":
    main()
