#!/venv/bin/python
# coding: utf-8
"""Regenerate /verif/MANIFEST.json from the check modules' metadata."""
import importlib
import json
import os
import sys

HERE = os.path.dirname(os.path.dirname(os.path.abspath(__file__)))
sys.path.insert(0, HERE)
sys.dont_write_bytecode = True

PY = "/venv/bin/python"
BASELINE_OFF = ("cd /repo && env -u MOCLO_VERIF /venv/bin/python -m pytest -ra -q "
                "-p no:cacheprovider --timeout=900 --continue-on-collection-errors")


def main():
    from vlib import boot
    boot.boot()
    props = [json.loads(l) for l in open(os.path.join(HERE, "properties.jsonl"))]
    checks, na = [], []
    for p in props:
        pid = p["id"]
        path = os.path.join(HERE, "checks", pid.lower() + ".py")
        if not os.path.exists(path):
            na.append({"property_id": pid,
                       "reason": "check not built yet (planned, see DESIGN.md section 4)"})
            continue
        mod = importlib.import_module("checks." + pid.lower())
        checks.append({
            "property_id": pid,
            "quick_cmd": "%s /verif/run_check.py %s --tier quick" % (PY, pid),
            "thorough_cmd": "%s /verif/run_check.py %s --tier thorough" % (PY, pid),
            "evidence_file": "/verif/evidence/%s.json" % pid,
            "replay_cmd_template": "%s /verif/run_check.py %s --replay {path}" % (PY, pid),
            "engine": "moclo-pbt",
            "level_claimed": {
                "category": mod.LEVEL,
                "text": mod.LEVEL_TEXT,
                "design_ref": "DESIGN.md section 4, %s" % pid,
            },
            "level_note": mod.LEVEL_NOTE,
            "technique": mod.TECHNIQUE,
        })
    manifest = {
        "version": 1,
        "setup_cmd": "%s /verif/setup_verif.py" % PY,
        "hooks": {
            "guard": "MOCLO_VERIF",
            "enable": "no source hooks are needed: every observation point is "
                      "public API; checks import the working tree of /repo "
                      "directly (vlib/boot.py) and set MOCLO_VERIF=1 for form only",
            "baseline_off_cmd": BASELINE_OFF,
            "source_commits": [],
            "add_only": True,
        },
        "engines": [{
            "name": "moclo-pbt",
            "path": "/verif/run_check.py",
            "serves_properties": [c["property_id"] for c in checks],
            "kind_free_text": "property-based testing: Hypothesis strategies over "
                              "JSON specs (sharded over 16 processes, seeded by "
                              "VERIF_SEED), exhaustive enumeration of small finite "
                              "sub-domains, replay tier of shrunk reproductions; "
                              "independent string-level oracles in vlib/dna.py and "
                              "vlib/model.py",
        }],
        "checks": checks,
        "not_applicable": na,
        "notes": "See DESIGN.md. Genuine defects found and repaired by fix: "
                 "commits are listed in KNOWN_FINDINGS.txt.",
    }
    with open(os.path.join(HERE, "MANIFEST.json"), "w") as fh:
        json.dump(manifest, fh, indent=1)
    try:
        import jsonschema
        jsonschema.validate(manifest, json.load(open("/root/.vp/MANIFEST.schema.json")))
        print("manifest valid (%d checks, %d not yet claimed)" % (len(checks), len(na)))
    except ImportError:
        print("manifest written (jsonschema not available here)")


if __name__ == "__main__":
    main()
